//! C03 — dimension audit (aC03): the entry points, knobs, input classes, hints and layers that the
//! `resp` / `req` / `prod` kinds do not drive.  Oracle-only kinds (the Lean spec predicate judges what
//! the real code produced; `Driver/C03Wire.lean`).
//!
//! case :=
//!   wresp <u|s|c|b> <send set|-> <accept hex|-> <rq> <max enc|none> <dis 0|1> <sm 0|1> <early|-> <end>
//!         HM <n> (<name hex> <value hex>)*n MSGS <hex>*
//!       server::Grpc::{unary, server_streaming, client_streaming, streaming}; rq = shape of the REQUEST
//!       (ok | ok2 | encid | empty | bad | trunc | enc | flag1): the answer to a request tonic itself
//!       refuses is a response tonic produces too; max enc = Grpc::max_encoding_message_size;
//!       dis = the handler calls Response::disable_compression(); sm = the handler's error status carries
//!       forged grpc-status / content-type metadata; HM = metadata of the handler's OK response (incl.
//!       reserved names)
//!   wreq <u|s|c|b> <n|o> <clone 0|1> <nth 1|2> <send g|d|z|-> <accept set|-> <max enc|none> <origin hex>
//!        <path hex> META (<name hex> <value hex>)* MSGS <hex>*
//!       client::Grpc::{unary, server_streaming, client_streaming, streaming}; n = Grpc::new (no
//!       origin), o = Grpc::with_origin; clone = the call goes through a clone of the configured value;
//!       nth = 2: a first call (other path, other message) precedes the observed one
//!   wsrv <stack> <u|s|c|b> <send set|-> <accept hex|-> <early|-> <end> MSGS <hex>*
//!       a NORMAL response of the real transport::Server (Routes, RecoverError, GrpcTimeout, the
//!       connection tasks, hyper) read by a raw hyper HTTP/2 client; stack = plain | timeout | limit |
//!       layer | two | icpt
//!   wcli <stack> <u|c> <send g|d|z|-> <origin hex> <path hex> MSGS <hex>*
//!       a request of the real Channel (Endpoint, AddOrigin, UserAgent, GrpcTimeout, Reconnect, hyper)
//!       read by a raw hyper HTTP/2 server; stack = plain | origin | ua | timeout | limit | rate
//!
//! observed :=
//!   wresp / wsrv: S<http> V<version> ct<values> ge<values> gs<values> B <poll tokens> E<bits> H… Z <ztab>
//!   wreq / wcli:  M<method> V<version> P<path hex> ct… te… ge… gae… B <poll tokens> E<bits> H… Z <ztab> R<outcome>
//!   poll tokens: d<hex> | t<number of grpc-status values in the block>:<first value> | n | e:<…>
//!   (E / H: is_end_stream() / size_hint() before every poll and after the last, as in the framing harness;
//!    wsrv / wcli read through hyper, there E and H are those of hyper's Incoming)
use super::{announced, enc_of_letter, hdr_tok, hexb, unhexb, RawCodec};
use crate::common::*;
use crate::framing::{counting_waker, frame, gen_msg, no_wakeup, oracle_compress, ztable_for_stream, ztable_tokens};
use bytes::Bytes;
use http_body::Body as HttpBody;
use std::future::Future;
use std::pin::Pin;
use std::task::{Context, Poll};
use tonic::codec::CompressionEncoding;
use tonic::{Request, Response, Status, Streaming};

// ---------------------------------------------------------------------------------------------
// observing a body: every poll, the hints between polls

pub async fn drain_hints<B>(body: B, extra: usize) -> (Vec<String>, Vec<u8>)
where
    B: HttpBody<Data = Bytes>,
    B::Error: std::fmt::Debug,
{
    let mut body = std::pin::pin!(body);
    let mut toks: Vec<String> = Vec::new();
    let mut data = Vec::new();
    let mut flags = String::new();
    let mut hints: Vec<(u64, Option<u64>)> = Vec::new();
    let mut after_end = 0;
    loop {
        flags.push(if body.is_end_stream() { '1' } else { '0' });
        let h = body.size_hint();
        hints.push((h.lower(), h.upper()));
        if toks.len() > 300 {
            toks.push("busy-loop".into());
            break;
        }
        if after_end > extra {
            break;
        }
        let polled = std::future::poll_fn(|cx| {
            let (wakes, waker) = counting_waker(Some(cx.waker().clone()));
            let mut cx2 = Context::from_waker(&waker);
            let refs_before = std::sync::Arc::strong_count(&wakes);
            match body.as_mut().poll_frame(&mut cx2) {
                Poll::Pending if no_wakeup(&wakes, 0, refs_before) => Poll::Ready(Err(())),
                Poll::Pending => Poll::Pending,
                Poll::Ready(f) => Poll::Ready(Ok(f)),
            }
        })
        .await;
        match polled {
            Err(()) => {
                toks.push("lost-wakeup".into());
                after_end = extra + 1;
            }
            Ok(None) => {
                toks.push("n".into());
                after_end += 1;
            }
            Ok(Some(Err(e))) => {
                toks.push(format!("e:{:?}", e).replace(' ', "_").chars().take(40).collect());
                after_end = extra + 1;
            }
            Ok(Some(Ok(f))) => {
                if f.is_data() {
                    let d = f.into_data().ok().unwrap();
                    data.extend_from_slice(&d);
                    toks.push(format!("d{}", hexb(&d)));
                } else if f.is_trailers() {
                    let t = f.into_trailers().ok().unwrap();
                    let vals: Vec<String> = t.get_all("grpc-status").iter().map(|v| String::from_utf8_lossy(v.as_bytes()).to_string()).collect();
                    toks.push(format!("t{}:{}", vals.len(), vals.first().cloned().unwrap_or_else(|| "-".into())).replace(' ', "_"));
                } else {
                    toks.push("unknown-frame".into());
                }
            }
        }
    }
    toks.push(format!("E{}", flags));
    if hints.iter().all(|h| *h == (0, None)) {
        toks.push("Hd".into());
    } else {
        let l: Vec<String> = hints.iter().map(|(l, u)| format!("{}/{}", l, u.map(|u| u.to_string()).unwrap_or_else(|| "-".into()))).collect();
        toks.push(format!("H{}", l.join(",")));
    }
    (toks, data)
}

fn ztab(h: &http::HeaderMap, data: &[u8]) -> String {
    match announced(h) {
        Some(e) => ztable_tokens(&ztable_for_stream(e, data)),
        None => {
            let tab: Vec<(Option<Vec<u8>>, Vec<u8>)> = ztable_for_stream(CompressionEncoding::Gzip, data).into_iter().map(|(_, c)| (None, c)).collect();
            ztable_tokens(&tab)
        }
    }
}

fn version_tok(v: http::Version) -> String {
    format!("V{:?}", v)
}

async fn show_response<B>(res: http::Response<B>, extra: usize) -> String
where
    B: HttpBody<Data = Bytes>,
    B::Error: std::fmt::Debug,
{
    let (parts, body) = res.into_parts();
    let (toks, data) = drain_hints(body, extra).await;
    format!(
        "S{} {} {} {} {} B {} {}",
        parts.status.as_u16(),
        version_tok(parts.version),
        hdr_tok("ct", &parts.headers, "content-type"),
        hdr_tok("ge", &parts.headers, "grpc-encoding"),
        hdr_tok("gs", &parts.headers, "grpc-status"),
        toks.join(" "),
        ztab(&parts.headers, &data)
    )
}

async fn show_request<B>(req: http::Request<B>, extra: usize) -> String
where
    B: HttpBody<Data = Bytes>,
    B::Error: std::fmt::Debug,
{
    let (parts, body) = req.into_parts();
    let (toks, data) = drain_hints(body, extra).await;
    format!(
        "M{} {} P{} {} {} {} {} B {} {}",
        parts.method,
        version_tok(parts.version),
        hexb(parts.uri.path_and_query().map(|p| p.as_str()).unwrap_or("").as_bytes()),
        hdr_tok("ct", &parts.headers, "content-type"),
        hdr_tok("te", &parts.headers, "te"),
        hdr_tok("ge", &parts.headers, "grpc-encoding"),
        hdr_tok("gae", &parts.headers, "grpc-accept-encoding"),
        toks.join(" "),
        ztab(&parts.headers, &data)
    )
}

// ---------------------------------------------------------------------------------------------
// the scripted handler behind all four server entry points

#[derive(Clone, Default)]
pub struct WScript {
    pub early: Option<i32>,
    pub end: i32,
    pub msgs: Vec<Vec<u8>>,
    pub hm: Vec<(Vec<u8>, Vec<u8>)>,
    pub dis: bool,
    pub sm: bool,
}

type BoxStream = Pin<Box<dyn tokio_stream::Stream<Item = Result<Vec<u8>, Status>> + Send>>;
type Fut<T> = Pin<Box<dyn Future<Output = Result<Response<T>, Status>> + Send>>;

impl WScript {
    fn status(&self, code: i32) -> Status {
        let mut st = Status::new(tonic::Code::from_i32(code), "user");
        if self.sm {
            let md = st.metadata_mut();
            md.insert("grpc-status", "0".parse().unwrap());
            md.insert("content-type", "text/plain".parse().unwrap());
            md.insert("x-k", "v".parse().unwrap());
        }
        st
    }
    fn decorate<T>(&self, mut r: Response<T>) -> Response<T> {
        for (k, v) in &self.hm {
            if let (Ok(k), Ok(v)) = (
                tonic::metadata::MetadataKey::<tonic::metadata::Ascii>::from_bytes(k),
                tonic::metadata::MetadataValue::<tonic::metadata::Ascii>::try_from(v.clone()),
            ) {
                r.metadata_mut().append(k, v);
            }
        }
        if self.dis {
            r.disable_compression();
        }
        r
    }
    fn one(&self) -> Result<Response<Vec<u8>>, Status> {
        if let Some(c) = self.early {
            return Err(self.status(c));
        }
        Ok(self.decorate(Response::new(self.msgs.first().cloned().unwrap_or_default())))
    }
    fn many(&self) -> Result<Response<BoxStream>, Status> {
        if let Some(c) = self.early {
            return Err(self.status(c));
        }
        let mut items: Vec<Result<Vec<u8>, Status>> = self.msgs.iter().cloned().map(Ok).collect();
        if self.end != 0 {
            items.push(Err(self.status(self.end)));
        }
        Ok(self.decorate(Response::new(Box::pin(tokio_stream::iter(items)) as BoxStream)))
    }
}

async fn drain_request(mut s: Streaming<Vec<u8>>) -> Result<(), Status> {
    while s.message().await?.is_some() {}
    Ok(())
}

impl tonic::server::UnaryService<Vec<u8>> for WScript {
    type Response = Vec<u8>;
    type Future = Fut<Vec<u8>>;
    fn call(&mut self, _req: Request<Vec<u8>>) -> Self::Future {
        let s = self.clone();
        Box::pin(async move { s.one() })
    }
}
impl tonic::server::ServerStreamingService<Vec<u8>> for WScript {
    type Response = Vec<u8>;
    type ResponseStream = BoxStream;
    type Future = Fut<BoxStream>;
    fn call(&mut self, _req: Request<Vec<u8>>) -> Self::Future {
        let s = self.clone();
        Box::pin(async move { s.many() })
    }
}
impl tonic::server::ClientStreamingService<Vec<u8>> for WScript {
    type Response = Vec<u8>;
    type Future = Fut<Vec<u8>>;
    fn call(&mut self, req: Request<Streaming<Vec<u8>>>) -> Self::Future {
        let s = self.clone();
        Box::pin(async move {
            drain_request(req.into_inner()).await?;
            s.one()
        })
    }
}
impl tonic::server::StreamingService<Vec<u8>> for WScript {
    type Response = Vec<u8>;
    type ResponseStream = BoxStream;
    type Future = Fut<BoxStream>;
    fn call(&mut self, req: Request<Streaming<Vec<u8>>>) -> Self::Future {
        let s = self.clone();
        Box::pin(async move {
            drain_request(req.into_inner()).await?;
            s.many()
        })
    }
}

fn configured(send: &str, max_enc: Option<usize>) -> tonic::server::Grpc<RawCodec> {
    let mut grpc = tonic::server::Grpc::new(RawCodec);
    for c in send.chars() {
        if let Some(e) = enc_of_letter(c) {
            grpc = grpc.send_compressed(e);
        }
    }
    if let Some(m) = max_enc {
        grpc = grpc.max_encoding_message_size(m);
    }
    grpc
}

async fn dispatch<B>(entry: &str, mut grpc: tonic::server::Grpc<RawCodec>, script: WScript, req: http::Request<B>) -> http::Response<tonic::body::Body>
where
    B: HttpBody + Send + 'static,
    B::Error: Into<Box<dyn std::error::Error + Send + Sync>> + Send,
{
    match entry {
        "u" => grpc.unary(script, req).await,
        "s" => grpc.server_streaming(script, req).await,
        "c" => grpc.client_streaming(script, req).await,
        _ => grpc.streaming(script, req).await,
    }
}

fn opt_num(s: &str) -> Option<Option<usize>> {
    if s == "none" {
        Some(None)
    } else {
        s.parse().ok().map(Some)
    }
}

fn request_of(rq: &str) -> Option<(Vec<u8>, Option<&'static str>)> {
    Some(match rq {
        "ok" => (frame(0, &[1, 2, 3]), None),
        "ok2" => ([frame(0, &[1]), frame(0, &[2, 2])].concat(), None),
        "encid" => (frame(0, &[4]), Some("identity")),
        "empty" => (vec![], None),
        "bad" => (vec![7, 0, 0, 0, 1, 9], None),
        "trunc" => (vec![0, 0, 0, 0, 10, 1, 2], None),
        "enc" => (frame(1, &oracle_compress(CompressionEncoding::Gzip, &[1, 2, 3])), Some("gzip")),
        "flag1" => (frame(1, &[1, 2, 3]), None),
        _ => return None,
    })
}

fn exec_wresp(t: &[&str]) -> Option<String> {
    if t.len() < 12 || t[10] != "HM" {
        return None;
    }
    let entry = t[1];
    if !["u", "s", "c", "b"].contains(&entry) {
        return None;
    }
    let (body, enc_hdr) = request_of(t[4])?;
    let max_enc = opt_num(t[5])?;
    let n: usize = t[11].parse().ok()?;
    let mpos = 12 + 2 * n;
    if t.get(mpos) != Some(&"MSGS") {
        return None;
    }
    let script = WScript {
        early: if t[8] == "-" { None } else { Some(t[8].parse().ok()?) },
        end: t[9].parse().ok()?,
        msgs: t[mpos + 1..].iter().map(|m| unhexb(m)).collect(),
        hm: (0..n).map(|i| (unhexb(t[12 + 2 * i]), unhexb(t[13 + 2 * i]))).collect(),
        dis: t[6] == "1",
        sm: t[7] == "1",
    };
    let grpc = configured(t[2], max_enc);
    let mut req = http::Request::new(tonic::body::Body::new(http_body_util::Full::new(Bytes::from(body))));
    *req.method_mut() = http::Method::POST;
    req.headers_mut().insert("content-type", "application/grpc".parse().unwrap());
    req.headers_mut().insert("te", "trailers".parse().unwrap());
    if let Some(e) = enc_hdr {
        req.headers_mut().insert("grpc-encoding", e.parse().unwrap());
    }
    if t[3] != "-" {
        if let Ok(v) = http::HeaderValue::from_bytes(&unhexb(t[3])) {
            req.headers_mut().insert("grpc-accept-encoding", v);
        }
    }
    let entry = entry.to_string();
    Some(paused_rt().block_on(async move {
        let resp = dispatch(&entry, grpc, script, req).await;
        show_response(resp, 1).await
    }))
}

// ---------------------------------------------------------------------------------------------
// wreq: all four client entry points, both constructors, clones, a second call

#[derive(Clone)]
struct Capture(std::sync::Arc<std::sync::Mutex<Vec<String>>>);

fn canned_ok() -> http::Response<tonic::body::Body> {
    let mut tr = http::HeaderMap::new();
    tr.insert("grpc-status", "0".parse().unwrap());
    let frames: Vec<Result<http_body::Frame<Bytes>, Status>> = vec![Ok(http_body::Frame::data(Bytes::from(frame(0, &[9])))), Ok(http_body::Frame::trailers(tr))];
    let body = tonic::body::Body::new(http_body_util::StreamBody::new(tokio_stream::iter(frames)));
    let mut resp = http::Response::new(body);
    resp.headers_mut().insert("content-type", "application/grpc".parse().unwrap());
    resp
}

impl tower::Service<http::Request<tonic::body::Body>> for Capture {
    type Response = http::Response<tonic::body::Body>;
    type Error = Status;
    type Future = Pin<Box<dyn Future<Output = Result<Self::Response, Status>> + Send>>;
    fn poll_ready(&mut self, _cx: &mut Context<'_>) -> Poll<Result<(), Status>> {
        Poll::Ready(Ok(()))
    }
    fn call(&mut self, req: http::Request<tonic::body::Body>) -> Self::Future {
        let slot = self.0.clone();
        Box::pin(async move {
            let obs = show_request(req, 1).await;
            slot.lock().unwrap().push(obs);
            Ok(canned_ok())
        })
    }
}

async fn client_call<T>(grpc: &mut tonic::client::Grpc<T>, entry: &str, meta: &[(Vec<u8>, Vec<u8>)], msgs: Vec<Vec<u8>>, path: &str) -> String
where
    T: tonic::client::GrpcService<tonic::body::Body>,
    T::ResponseBody: HttpBody + Send + 'static,
    <T::ResponseBody as HttpBody>::Error: Into<Box<dyn std::error::Error + Send + Sync>>,
{
    fn with_meta<M>(mut req: Request<M>, meta: &[(Vec<u8>, Vec<u8>)]) -> Request<M> {
        for (k, v) in meta {
            if let (Ok(k), Ok(v)) = (
                tonic::metadata::MetadataKey::<tonic::metadata::Ascii>::from_bytes(k),
                tonic::metadata::MetadataValue::<tonic::metadata::Ascii>::try_from(v.clone()),
            ) {
                req.metadata_mut().append(k, v);
            }
        }
        req
    }
    let path: http::uri::PathAndQuery = match path.parse() {
        Ok(p) => p,
        Err(_) => return "bad-case".into(),
    };
    if grpc.ready().await.is_err() {
        return "Rnot-ready".into();
    }
    let first = msgs.first().cloned().unwrap_or_default();
    let code = |st: Status| format!("Rerr{}", st.code() as i32);
    match entry {
        "u" => match grpc.unary(with_meta(Request::new(first), meta), path, RawCodec).await {
            Ok(_) => "Rok".into(),
            Err(st) => code(st),
        },
        "s" => match grpc.server_streaming(with_meta(Request::new(first), meta), path, RawCodec).await {
            Ok(r) => {
                let mut s = r.into_inner();
                loop {
                    match s.message().await {
                        Ok(Some(_)) => {}
                        Ok(None) => break "Rok".into(),
                        Err(st) => break code(st),
                    }
                }
            }
            Err(st) => code(st),
        },
        "c" => match grpc.client_streaming(with_meta(Request::new(tokio_stream::iter(msgs)), meta), path, RawCodec).await {
            Ok(_) => "Rok".into(),
            Err(st) => code(st),
        },
        _ => match grpc.streaming(with_meta(Request::new(tokio_stream::iter(msgs)), meta), path, RawCodec).await {
            Ok(r) => {
                let mut s = r.into_inner();
                loop {
                    match s.message().await {
                        Ok(Some(_)) => {}
                        Ok(None) => break "Rok".into(),
                        Err(st) => break code(st),
                    }
                }
            }
            Err(st) => code(st),
        },
    }
}

fn configure_client<T>(mut grpc: tonic::client::Grpc<T>, send: &str, acc: &str, max_enc: Option<usize>) -> tonic::client::Grpc<T> {
    if let Some(e) = send.chars().next().and_then(enc_of_letter) {
        grpc = grpc.send_compressed(e);
    }
    for c in acc.chars() {
        if let Some(e) = enc_of_letter(c) {
            grpc = grpc.accept_compressed(e);
        }
    }
    if let Some(m) = max_enc {
        grpc = grpc.max_encoding_message_size(m);
    }
    grpc
}

fn meta_and_msgs(t: &[&str], from: usize) -> Option<(Vec<(Vec<u8>, Vec<u8>)>, Vec<Vec<u8>>)> {
    if t.get(from) != Some(&"META") {
        return None;
    }
    let gpos = t.iter().position(|x| *x == "MSGS")?;
    if (gpos - from - 1) % 2 != 0 {
        return None;
    }
    let meta = (from + 1..gpos).step_by(2).map(|i| (unhexb(t[i]), unhexb(t[i + 1]))).collect();
    let msgs = t[gpos + 1..].iter().map(|m| unhexb(m)).collect();
    Some((meta, msgs))
}

fn exec_wreq(t: &[&str]) -> Option<String> {
    if t.len() < 12 {
        return None;
    }
    let entry = t[1].to_string();
    if !["u", "s", "c", "b"].contains(&t[1]) {
        return None;
    }
    let max_enc = opt_num(t[7])?;
    let origin = String::from_utf8(unhexb(t[8])).ok()?;
    let path = String::from_utf8(unhexb(t[9])).ok()?;
    let (meta, msgs) = meta_and_msgs(t, 10)?;
    let slot = std::sync::Arc::new(std::sync::Mutex::new(Vec::new()));
    let base = if t[2] == "n" {
        tonic::client::Grpc::new(Capture(slot.clone()))
    } else {
        let uri: http::Uri = format!("http://example.test{}", origin).parse().ok()?;
        tonic::client::Grpc::with_origin(Capture(slot.clone()), uri)
    };
    let base = configure_client(base, t[5], t[6], max_enc);
    let (clone, twice) = (t[3] == "1", t[4] == "2");
    Some(paused_rt().block_on(async move {
        let mut base = base;
        if twice {
            // a first call on the very value the observed call (or the clone making it) comes from
            let _ = client_call(&mut base, "u", &[], vec![vec![0xee; 3]], "/first.Svc/Other").await;
        }
        let mut grpc = if clone { base.clone() } else { base };
        let r = client_call(&mut grpc, &entry, &meta, msgs, &path).await;
        let seen = slot.lock().unwrap().last().cloned().unwrap_or_else(|| "no-request-sent".into());
        let n = slot.lock().unwrap().len();
        if n != if twice { 2 } else { 1 } {
            return format!("requests-sent:{} {}", n, r);
        }
        format!("{} {}", seen, r)
    }))
}

// ---------------------------------------------------------------------------------------------
// wsrv: a normal response through the real transport::Server

#[derive(Clone)]
struct WireSvc {
    send: String,
    script: WScript,
}
impl tonic::server::NamedService for WireSvc {
    const NAME: &'static str = "verif.Wire";
}
impl tower::Service<http::Request<tonic::body::Body>> for WireSvc {
    type Response = http::Response<tonic::body::Body>;
    type Error = std::convert::Infallible;
    type Future = Pin<Box<dyn Future<Output = Result<Self::Response, Self::Error>> + Send>>;
    fn poll_ready(&mut self, _cx: &mut Context<'_>) -> Poll<Result<(), Self::Error>> {
        Poll::Ready(Ok(()))
    }
    fn call(&mut self, req: http::Request<tonic::body::Body>) -> Self::Future {
        let s = self.clone();
        Box::pin(async move {
            let entry = match req.uri().path() {
                "/verif.Wire/U" => "u",
                "/verif.Wire/S" => "s",
                "/verif.Wire/C" => "c",
                _ => "b",
            };
            Ok(dispatch(entry, configured(&s.send, None), s.script, req).await)
        })
    }
}

#[derive(Clone)]
struct OtherSvc;
impl tonic::server::NamedService for OtherSvc {
    const NAME: &'static str = "verif.Other";
}
impl tower::Service<http::Request<tonic::body::Body>> for OtherSvc {
    type Response = http::Response<tonic::body::Body>;
    type Error = std::convert::Infallible;
    type Future = std::future::Ready<Result<Self::Response, Self::Error>>;
    fn poll_ready(&mut self, _cx: &mut Context<'_>) -> Poll<Result<(), Self::Error>> {
        Poll::Ready(Ok(()))
    }
    fn call(&mut self, _req: http::Request<tonic::body::Body>) -> Self::Future {
        std::future::ready(Ok(Status::unimplemented("other").into_http()))
    }
}

const WATCHDOG: std::time::Duration = std::time::Duration::from_secs(1_000_000);

fn one_conn(sio: tokio::io::DuplexStream) -> impl tokio_stream::Stream<Item = Result<tokio::io::DuplexStream, std::io::Error>> {
    tokio_stream::StreamExt::chain(tokio_stream::once(Ok::<_, std::io::Error>(sio)), tokio_stream::pending())
}

async fn raw_get(cio: tokio::io::DuplexStream, target: String, accept: Option<Vec<u8>>) -> String {
    let fut = async {
        let (mut send, conn) = match hyper::client::conn::http2::handshake(hyper_util::rt::TokioExecutor::new(), hyper_util::rt::TokioIo::new(cio)).await {
            Ok(x) => x,
            Err(e) => return format!("handshake-failed:{}", e).replace(' ', "_"),
        };
        tokio::spawn(async move {
            let _ = conn.await;
        });
        let mut b = http::Request::builder().method("POST").uri(target).version(http::Version::HTTP_2).header("content-type", "application/grpc").header("te", "trailers");
        if let Some(a) = accept {
            if let Ok(v) = http::HeaderValue::from_bytes(&a) {
                b = b.header("grpc-accept-encoding", v);
            }
        }
        let req = match b.body(http_body_util::Full::new(Bytes::from(frame(0, &[1])))) {
            Ok(r) => r,
            Err(_) => return "bad-request".into(),
        };
        match send.send_request(req).await {
            Ok(res) => show_response(res, 0).await,
            Err(e) => format!("transport-error:{:?}", e).replace(' ', "_"),
        }
    };
    match tokio::time::timeout(WATCHDOG, fut).await {
        Ok(s) => s,
        Err(_) => "hang".into(),
    }
}

fn exec_wsrv(t: &[&str]) -> Option<String> {
    if t.len() < 8 || t[7] != "MSGS" {
        return None;
    }
    let stack = t[1].to_string();
    let entry = match t[2] {
        "u" => "U",
        "s" => "S",
        "c" => "C",
        "b" => "B",
        _ => return None,
    };
    let svc = WireSvc {
        send: t[3].to_string(),
        script: WScript {
            early: if t[5] == "-" { None } else { Some(t[5].parse().ok()?) },
            end: t[6].parse().ok()?,
            msgs: t[8..].iter().map(|m| unhexb(m)).collect(),
            ..Default::default()
        },
    };
    let accept = if t[4] == "-" { None } else { Some(unhexb(t[4])) };
    let target = format!("http://h/verif.Wire/{}", entry);
    Some(paused_rt().block_on(async move {
        let (cio, sio) = tokio::io::duplex(1 << 16);
        let incoming = one_conn(sio);
        let b = tonic::transport::Server::builder();
        macro_rules! serve {
            ($router:expr) => {{
                let router = $router;
                tokio::spawn(async move {
                    let _ = router.serve_with_incoming(incoming).await;
                });
            }};
        }
        match stack.as_str() {
            "plain" => serve!({
                let mut b = b;
                b.add_service(svc)
            }),
            "timeout" => serve!({
                let mut b = b.timeout(std::time::Duration::from_secs(3600));
                b.add_service(svc)
            }),
            "limit" => serve!({
                let mut b = b.concurrency_limit_per_connection(4);
                b.add_service(svc)
            }),
            "layer" => serve!({
                let mut b = b.layer(tower_layer::Identity::new()).layer(tower::limit::ConcurrencyLimitLayer::new(8));
                b.add_service(svc)
            }),
            "two" => serve!({
                let mut b = b;
                b.add_service(OtherSvc).add_service(svc)
            }),
            "icpt" => serve!({
                let mut b = b;
                b.add_service(tonic::service::interceptor::InterceptedService::new(svc, |r: Request<()>| Ok::<_, Status>(r)))
            }),
            _ => return "bad-case".to_string(),
        }
        raw_get(cio, target, accept).await
    }))
}

// ---------------------------------------------------------------------------------------------
// wcli: a request through the real Channel, read by a raw hyper HTTP/2 server

fn exec_wcli(t: &[&str]) -> Option<String> {
    if t.len() < 7 || t[6] != "MSGS" {
        return None;
    }
    let stack = t[1].to_string();
    let entry = t[2].to_string();
    if !["u", "c"].contains(&t[2]) {
        return None;
    }
    let send = t[3].to_string();
    let origin = String::from_utf8(unhexb(t[4])).ok()?;
    let path = String::from_utf8(unhexb(t[5])).ok()?;
    let msgs: Vec<Vec<u8>> = t[7..].iter().map(|m| unhexb(m)).collect();
    Some(paused_rt().block_on(async move {
        let (cio, sio) = tokio::io::duplex(1 << 16);
        let seen = std::sync::Arc::new(std::sync::Mutex::new(Vec::<String>::new()));
        let seen2 = seen.clone();
        tokio::spawn(async move {
            let svc = hyper::service::service_fn(move |req: http::Request<hyper::body::Incoming>| {
                let seen = seen2.clone();
                async move {
                    let obs = show_request(req, 0).await;
                    seen.lock().unwrap().push(obs);
                    Ok::<_, std::convert::Infallible>(canned_ok())
                }
            });
            let _ = hyper::server::conn::http2::Builder::new(hyper_util::rt::TokioExecutor::new()).serve_connection(hyper_util::rt::TokioIo::new(sio), svc).await;
        });
        let io = std::sync::Arc::new(std::sync::Mutex::new(Some(cio)));
        let connector = tower::service_fn(move |_uri: http::Uri| {
            let io = io.lock().unwrap().take();
            async move {
                match io {
                    Some(io) => Ok(hyper_util::rt::TokioIo::new(io)),
                    None => Err(std::io::Error::new(std::io::ErrorKind::ConnectionRefused, "one connection only")),
                }
            }
        });
        let mut ep = tonic::transport::Endpoint::from_shared(format!("http://verif.test{}", origin)).unwrap();
        match stack.as_str() {
            "plain" => {}
            "origin" => ep = ep.origin("http://other.test:81".parse().unwrap()),
            "ua" => ep = ep.user_agent("verif-agent/1").unwrap(),
            "timeout" => ep = ep.timeout(std::time::Duration::from_secs(3600)),
            "limit" => ep = ep.concurrency_limit(2),
            "rate" => ep = ep.rate_limit(100, std::time::Duration::from_secs(1)),
            _ => return "bad-case".to_string(),
        }
        let fut = async {
            let channel = match ep.connect_with_connector(connector).await {
                Ok(c) => c,
                Err(_) => return "Rconnect-failed".to_string(),
            };
            let mut grpc = configure_client(tonic::client::Grpc::new(channel), &send, "-", None);
            client_call(&mut grpc, &entry, &[], msgs, &path).await
        };
        let r = match tokio::time::timeout(WATCHDOG, fut).await {
            Ok(r) => r,
            Err(_) => "hang".to_string(),
        };
        let s = seen.lock().unwrap();
        if s.len() != 1 {
            return format!("requests-sent:{} {}", s.len(), r);
        }
        format!("{} {}", s[0], r)
    }))
}

pub fn execute(case: &str) -> String {
    let t: Vec<&str> = case.split(' ').collect();
    let r = match t[0] {
        "wresp" => exec_wresp(&t),
        "wreq" => exec_wreq(&t),
        "wsrv" => exec_wsrv(&t),
        "wcli" => exec_wcli(&t),
        _ => None,
    };
    r.unwrap_or_else(|| "bad-case".into())
}

// ---------------------------------------------------------------------------------------------
// generators

fn msgs_tok(msgs: &[Vec<u8>]) -> String {
    msgs.iter().map(|m| hexb(m)).collect::<Vec<_>>().join(" ")
}

fn hm_tok(hm: &[(&str, &str)]) -> String {
    let mut s = hm.len().to_string();
    for (k, v) in hm {
        s.push_str(&format!(" {} {}", hexb(k.as_bytes()), hexb(v.as_bytes())));
    }
    s
}

const HMS: [&[(&str, &str)]; 7] = [
    &[],
    &[("x-user", "1")],
    &[("grpc-status", "0")],
    &[("grpc-status", "7"), ("grpc-message", "forged")],
    &[("content-type", "text/html"), ("te", "gzip")],
    &[("content-type", "application/grpc+proto"), ("x-a", "1"), ("x-a", "2")],
    &[("grpc-encoding", "gzip")],
];

pub fn generate(tier: &str, rng: &mut Rng) -> Vec<String> {
    let thorough = tier == "thorough";
    let mut out = Vec::new();
    let small: Vec<Vec<u8>> = vec![vec![1u8], vec![], vec![2u8; 40]];
    let line = |entry: &str, send: &str, acc: Option<&str>, rq: &str, max: Option<usize>, dis: bool, sm: bool, early: &str, end: u64, hm: &[(&str, &str)], msgs: &[Vec<u8>]| {
        format!(
            "wresp {} {} {} {} {} {} {} {} {} HM {} MSGS {}",
            entry,
            send,
            acc.map(|a| hexb(a.as_bytes())).unwrap_or_else(|| "-".into()),
            rq,
            max.map(|m| m.to_string()).unwrap_or_else(|| "none".into()),
            dis as u8,
            sm as u8,
            early,
            end,
            hm_tok(hm),
            msgs_tok(msgs)
        )
        .trim_end()
        .to_string()
    };
    // every entry point × request shape × outcome
    for entry in ["u", "s", "c", "b"] {
        for rq in ["ok", "ok2", "encid", "empty", "bad", "trunc", "enc", "flag1"] {
            for (early, end) in [("-", 0), ("-", 5), ("3", 0)] {
                for (send, acc) in [("-", None), ("g", Some("gzip")), ("zd", Some("deflate,zstd"))] {
                    out.push(line(entry, send, acc, rq, None, false, false, early, end, &[], &small));
                }
            }
        }
        // handler metadata with reserved names, forged status metadata, the compression opt-out
        for hm in HMS {
            for (early, end) in [("-", 0), ("-", 9), ("13", 0)] {
                for sm in [false, true] {
                    for dis in [false, true] {
                        out.push(line(entry, "g", Some("gzip"), "ok", None, dis, sm, early, end, hm, &small));
                    }
                }
            }
        }
        // max_encoding_message_size around the message sizes, with and without compression
        for max in [0usize, 1, 39, 40, 41] {
            for (send, acc) in [("-", None), ("g", Some("gzip"))] {
                out.push(line(entry, send, acc, "ok", Some(max), false, false, "-", 0, &[], &small));
                out.push(line(entry, send, acc, "ok", Some(max), false, false, "-", 4, &[], &[vec![5u8; 40], vec![6u8]]));
            }
        }
    }
    let sets = ["-", "g", "d", "z", "gd", "zdg"];
    let accepts: [Option<&str>; 7] = [None, Some("gzip"), Some("deflate"), Some("zstd"), Some("zstd, gzip"), Some("identity,deflate"), Some("br")];
    let rqs = ["ok", "ok", "ok", "ok2", "encid", "empty", "bad", "trunc", "enc", "flag1"];
    for _ in 0..(if thorough { 6000 } else { 500 }) {
        let entry = *rng.pick(&["u", "s", "c", "b"]);
        let k = rng.below(4) as usize;
        let msgs: Vec<Vec<u8>> = (0..k).map(|_| gen_msg(rng, 300)).collect();
        let max = if rng.chance(1, 4) { Some(if msgs.is_empty() { rng.below(10) as usize } else { (rng.pick(&msgs).len() + rng.below(3) as usize).saturating_sub(1) }) } else { None };
        let early = if rng.chance(1, 6) { rng.range(1, 16).to_string() } else { "-".to_string() };
        let end = if rng.chance(1, 3) { rng.range(1, 16) } else { 0 };
        out.push(line(entry, *rng.pick(&sets), *rng.pick(&accepts), *rng.pick(&rqs), max, rng.chance(1, 4), rng.chance(1, 4), &early, end, *rng.pick(&HMS), &msgs));
    }

    // ---- wreq
    let metas: Vec<Vec<(&str, &str)>> = vec![vec![], vec![("te", "gzip"), ("content-type", "text/plain"), ("x-user", "v")], vec![("grpc-encoding", "zstd"), ("x-a", "1"), ("x-a", "2")]];
    let paths = ["/pkg.Svc/Method", "/Svc/M", "/a.b.c.d.LongServiceName/AVeryLongMethodNameIndeed", "/pkg.Svc/Method?q=1"];
    let origins = ["", "/", "/base", "/api?tenant=acme", "/?x=1"];
    let wreq = |entry: &str, ctor: &str, clone: bool, nth: u8, send: &str, acc: &str, max: Option<usize>, origin: &str, path: &str, meta: &[(&str, &str)], msgs: &[Vec<u8>]| {
        let meta: Vec<String> = meta.iter().map(|(k, v)| format!("{} {}", hexb(k.as_bytes()), hexb(v.as_bytes()))).collect();
        format!(
            "wreq {} {} {} {} {} {} {} {} {} META {} MSGS {}",
            entry,
            ctor,
            clone as u8,
            nth,
            send,
            acc,
            max.map(|m| m.to_string()).unwrap_or_else(|| "none".into()),
            hexb(origin.as_bytes()),
            hexb(path.as_bytes()),
            meta.join(" "),
            msgs_tok(msgs)
        )
        .replace("  ", " ")
        .trim_end()
        .to_string()
    };
    for entry in ["u", "s", "c", "b"] {
        for ctor in ["n", "o"] {
            for clone in [false, true] {
                for nth in [1u8, 2] {
                    for send in ["-", "g", "z"] {
                        for msgs in [vec![], vec![vec![7u8; 3]], small.clone()] {
                            let o = *rng.pick(&origins);
                            let p = *rng.pick(&paths);
                            let m = rng.pick(&metas).clone();
                            out.push(wreq(entry, ctor, clone, nth, send, "gd", None, o, p, &m, &msgs));
                        }
                    }
                }
            }
        }
        for max in [0usize, 1, 39, 40] {
            for send in ["-", "d"] {
                out.push(wreq(entry, "o", false, 1, send, "-", Some(max), "/base", paths[0], &[], &small));
            }
        }
        for p in paths {
            for o in origins {
                out.push(wreq(entry, "o", true, 2, "g", "-", None, o, p, &[], &small));
            }
        }
    }
    for _ in 0..(if thorough { 3000 } else { 200 }) {
        let entry = *rng.pick(&["u", "s", "c", "b"]);
        let k = rng.below(4) as usize;
        let msgs: Vec<Vec<u8>> = (0..k).map(|_| gen_msg(rng, 300)).collect();
        let max = if rng.chance(1, 4) && !msgs.is_empty() { Some((rng.pick(&msgs).len() + rng.below(3) as usize).saturating_sub(1)) } else { None };
        let m = rng.pick(&metas).clone();
        out.push(wreq(entry, *rng.pick(&["n", "o"]), rng.chance(1, 2), 1 + rng.below(2) as u8, *rng.pick(&["-", "g", "d", "z"]), *rng.pick(&["-", "g", "zdg"]), max, *rng.pick(&origins), *rng.pick(&paths), &m, &msgs));
    }

    // ---- wsrv: normal responses through the real server
    for stack in ["plain", "timeout", "limit", "layer", "two", "icpt"] {
        for entry in ["u", "s", "c", "b"] {
            for (send, acc) in [("-", None), ("g", Some("gzip"))] {
                for (early, end) in [("-", 0), ("-", 5), ("3", 0)] {
                    out.push(
                        format!("wsrv {} {} {} {} {} {} MSGS {}", stack, entry, send, acc.map(|a| hexb(a.as_bytes())).unwrap_or_else(|| "-".into()), early, end, msgs_tok(&small))
                            .trim_end()
                            .to_string(),
                    );
                }
            }
        }
    }
    for _ in 0..(if thorough { 600 } else { 40 }) {
        let k = rng.below(4) as usize;
        let msgs: Vec<Vec<u8>> = (0..k).map(|_| gen_msg(rng, 3000)).collect();
        let end = if rng.chance(1, 3) { rng.range(1, 16) } else { 0 };
        out.push(
            format!(
                "wsrv {} {} {} {} - {} MSGS {}",
                *rng.pick(&["plain", "timeout", "limit", "layer", "two", "icpt"]),
                *rng.pick(&["u", "s", "c", "b"]),
                *rng.pick(&sets),
                rng.pick(&accepts).map(|a| hexb(a.as_bytes())).unwrap_or_else(|| "-".into()),
                end,
                msgs_tok(&msgs)
            )
            .trim_end()
            .to_string(),
        );
    }

    // ---- wcli: requests through the real Channel
    for stack in ["plain", "origin", "ua", "timeout", "limit", "rate"] {
        for entry in ["u", "c"] {
            for send in ["-", "g"] {
                for o in ["", "/", "/base", "/api?tenant=acme"] {
                    out.push(format!("wcli {} {} {} {} {} MSGS {}", stack, entry, send, hexb(o.as_bytes()), hexb(paths[0].as_bytes()), msgs_tok(&small)).trim_end().to_string());
                }
            }
        }
    }
    for _ in 0..(if thorough { 300 } else { 20 }) {
        let k = rng.below(4) as usize;
        let msgs: Vec<Vec<u8>> = (0..k).map(|_| gen_msg(rng, 3000)).collect();
        out.push(
            format!(
                "wcli {} {} {} {} {} MSGS {}",
                *rng.pick(&["plain", "origin", "ua", "timeout", "limit", "rate"]),
                *rng.pick(&["u", "c"]),
                *rng.pick(&["-", "g", "d", "z"]),
                hexb(rng.pick(&origins).as_bytes()),
                hexb(rng.pick(&paths).as_bytes()),
                msgs_tok(&msgs)
            )
            .trim_end()
            .to_string(),
        );
    }
    out
}
