//! C13 — `qlim <n> <m>`: calls QUEUED behind `concurrency_limit_per_connection(n)` when the shutdown signal fires
//! (seed C13i: a per-connection "draining" flag answered by a middleware's `call` - which for a queued request runs
//! only once a slot is free, long after the request was accepted).  One connection, `m > n` unary calls issued at
//! once: `n` handlers start and wait at their gate, the rest wait for a slot inside the server's own limit layer;
//! the signal fires; the gates open.  Every one of the `m` calls had been received by the server before the signal:
//! each completes with its handler's answer, and the serve future resolves afterwards.
//! Observed: `started-before:<s> ok:<k>/<m> handlers:<h> resolved:<0|1>`.
use super::*;
use std::sync::atomic::{AtomicUsize, Ordering};

#[derive(Clone)]
struct QSvc {
    started: Arc<AtomicUsize>,
    gate: Arc<Semaphore>,
}

impl tonic::server::NamedService for QSvc {
    const NAME: &'static str = "verif.Q";
}

struct QUnary(QSvc);
impl tonic::server::UnaryService<Vec<u8>> for QUnary {
    type Response = Vec<u8>;
    type Future = BoxFut<Result<Response<Vec<u8>>, Status>>;
    fn call(&mut self, request: Request<Vec<u8>>) -> Self::Future {
        let s = self.0.clone();
        Box::pin(async move {
            s.started.fetch_add(1, Ordering::SeqCst);
            s.gate.acquire().await.unwrap().forget();
            let mut out = b"echo:".to_vec();
            out.extend_from_slice(request.get_ref());
            Ok(Response::new(out))
        })
    }
}

impl tower_service::Service<http::Request<tonic::body::Body>> for QSvc {
    type Response = http::Response<tonic::body::Body>;
    type Error = std::convert::Infallible;
    type Future = BoxFut<Result<Self::Response, Self::Error>>;
    fn poll_ready(&mut self, _cx: &mut Context<'_>) -> Poll<Result<(), Self::Error>> {
        Poll::Ready(Ok(()))
    }
    fn call(&mut self, req: http::Request<tonic::body::Body>) -> Self::Future {
        let s = self.clone();
        Box::pin(async move {
            let mut grpc = tonic::server::Grpc::new(RawCodec);
            Ok(grpc.unary(QUnary(s), req).await)
        })
    }
}

pub(super) fn execute_qlim(t: &[&str]) -> String {
    let (Some(n), Some(m)) = (t.get(1).and_then(|x| x.parse::<usize>().ok()), t.get(2).and_then(|x| x.parse::<usize>().ok())) else {
        return "bad-case".into();
    };
    if n == 0 || m <= n || m > 16 {
        return "bad-case".into();
    }
    let rt = tokio::runtime::Builder::new_current_thread().enable_all().start_paused(true).build().unwrap();
    let out = rt.block_on(async move {
        let svc = QSvc { started: Arc::new(AtomicUsize::new(0)), gate: Arc::new(Semaphore::new(0)) };
        let (sig_tx, sig_rx) = oneshot::channel::<()>();
        let (cli, srv) = tokio::io::duplex(64 * 1024);
        let incoming = tokio_stream::StreamExt::chain(tokio_stream::once(Ok::<_, std::io::Error>(srv)), tokio_stream::pending());
        let resolved = Arc::new(AtomicUsize::new(0));
        let r2 = resolved.clone();
        let router = Server::builder().concurrency_limit_per_connection(n).add_service(svc.clone());
        let serve = tokio::spawn(async move {
            let _ = router
                .serve_with_incoming_shutdown(incoming, async move {
                    let _ = sig_rx.await;
                })
                .await;
            r2.store(1, Ordering::SeqCst);
        });
        let Some(ch) = connect_duplex(cli, false).await else { return "no-connection".to_string() };
        let mut calls = Vec::new();
        for k in 0..m {
            let ch = ch.clone();
            calls.push(tokio::spawn(async move {
                let mut g = tonic::client::Grpc::new(ch);
                if g.ready().await.is_err() {
                    return false;
                }
                let path = http::uri::PathAndQuery::from_static("/verif.Q/Unary");
                match g.unary::<Vec<u8>, Vec<u8>, _>(Request::new(vec![b'a' + k as u8]), path, RawCodec).await {
                    Ok(r) => r.get_ref() == &[b"echo:".as_slice(), &[b'a' + k as u8]].concat(),
                    Err(_) => false,
                }
            }));
        }
        settle().await;
        let started_before = svc.started.load(Ordering::SeqCst);
        let _ = sig_tx.send(());
        settle().await;
        svc.gate.add_permits(1 << 20);
        let mut ok = 0;
        for c in calls {
            if let Ok(Ok(true)) = tokio::time::timeout(Duration::from_secs(3600), c).await {
                ok += 1;
            }
        }
        drop(ch);
        settle().await;
        let res = resolved.load(Ordering::SeqCst);
        serve.abort();
        format!("started-before:{} ok:{}/{} handlers:{} resolved:{}", started_before, ok, m, svc.started.load(Ordering::SeqCst), res)
    });
    drop(rt);
    out
}

pub(super) fn generate_qlim(out: &mut Vec<String>) {
    for (n, m) in [(1usize, 2usize), (1, 3), (2, 3), (2, 5), (4, 9)] {
        out.push(format!("qlim {} {}", n, m));
    }
}
