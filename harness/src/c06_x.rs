//! C06 — dimensions added by the proactive dimension audit (builder aC06).  Included from c06.rs.
//!
//! Case kinds of this file:
//!   dech <lower> <upper|-> dec …            a `dec` case (grammar: framing.rs) whose body double reports
//!        `Body::size_hint()` = (lower, upper) — what hyper derives from a peer's content-length.  The
//!        hint must be INVISIBLE: observed and predicted exactly like the `dec` case behind it
//!        (the allocation observer `a0`/`a1` included).
//!   lim.genp <path> <rest of a lim.gen case>   the generated client / server pair reached along another
//!        path; INVISIBLE: observed and predicted like `lim.gen`.  path:
//!          k  both configured values are CLONED and the clones are used (the originals dropped)
//!          r  the server sits behind `tonic::service::Routes` (axum clones it for every request)
//!          i  the generated client's `with_interceptor`       j  the configured server inside `InterceptedService`
//!          o  builder order: limits first, compression builders after them; every limit set twice (a decoy first)
//!          2  a first call (unary, empty argument) on the same client before the observed one
//!          a  server built with `from_arc`, client with `with_origin`
//!   lim.seq <s|c> <stmt>*                    ONE `server::Grpc` / `client::Grpc` value taken through a
//!        program of configuration statements and calls; observed: one token per call.
//!        stmt:  d<l> | e<l>          max_decoding_message_size(l) / max_encoding_message_size(l)
//!               a<d|->/<e|->         apply_max_message_size_config(d, e)             (server only)
//!               zA | zS              accept_compressed(Gzip) / send_compressed(Gzip)
//!               k                    continue with a clone, the original is dropped   (client only)
//!               <u|s|c|d><z|->:<q,…>:<r,…>   a call: shape (unary, server-, client-streaming, bidi), z = the
//!                                    peer's messages are gzip-compressed; the peer sends the messages
//!                                    q…, our side answers / is answered with r… (client: q = what we send,
//!                                    r = what the peer answers).  A message is `<raw len>` or
//!                                    `<raw len>/<wire len>` when it travels compressed.
//!        observed, server: <grpc-status>,h<handler runs>,m<request messages the handler got>,r<response messages in the body>
//!        observed, client: s<request messages the transport received>,r<response messages delivered>,<ok|err<code>>
use super::blob;
use crate::c03::{drain_body, RawCodec};
use crate::common::*;
use crate::framing::*;
use bytes::Bytes;
use http_body::{Body, Frame, SizeHint};
use std::collections::VecDeque;
use std::future::Future;
use std::pin::Pin;
use std::sync::atomic::{AtomicUsize, Ordering};
use std::sync::Arc;
use std::task::{Context, Poll};
use tokio_stream::Stream;
use tonic::codec::{BufferSettings, CompressionEncoding};
use tonic::{Request, Response, Status, Streaming};

// =====================================================================================================
// decoder: more input classes for the existing `dec` kind
// =====================================================================================================

fn maxs(m: Option<u128>) -> String {
    m.map(|m| m.to_string()).unwrap_or_else(|| "none".into())
}

fn bare(b: &[u8]) -> String {
    hex(b)[1..].to_string()
}

/// Oversize announcements the corpus did not have: with the compressed-flag set under every
/// negotiated encoding; on a `Streaming::new_empty`; followed by trailers / a body error / more
/// frames; and limits at and beyond 2^32-1.
pub fn gen_dec_dims(out: &mut Vec<String>) {
    // (a) flag 1 under every negotiated encoding: bare prefix, prefix cut, prefix + a few payload bytes
    for enc in ["gzip", "deflate", "zstd"] {
        for (max, len) in [(None, 0x0040_0001u32), (None, 0xFFFF_FFFF), (Some(0u128), 1), (Some(5), 6), (Some(1024), 0x0400_0000), (Some(65536), 0x4000_0000), (Some(1 << 20), 0x0800_0000)] {
            for k in 0..2usize {
                let mut b = Vec::new();
                for i in 0..k {
                    b.extend(frame(0, &[i as u8 + 1; 2]));
                }
                let cut = b.len() + 1 + (len as usize % 4);
                b.push(1);
                b.extend_from_slice(&len.to_be_bytes());
                let dir = if k == 0 { "req" } else { "resp200" };
                out.push(format!("dec {} {} {} 8192 5 Z 0 EV d{}", dir, enc, maxs(max), bare(&b)));
                out.push(format!("dec {} {} {} 16 6 Z 0 EV d{} p d{}", dir, enc, maxs(max), bare(&b[..cut]), bare(&b[cut..])));
                if len > 3 {
                    let mut c = b.clone();
                    c.extend_from_slice(&[0x1f, 0x8b, 8]);
                    out.push(format!("dec {} {} {} 0 5 Z 0 EV d{}", dir, enc, maxs(max), bare(&c)));
                }
            }
        }
    }
    // (b) `Streaming::new_empty` (a response whose headers carried grpc-status 0): no limit is
    // configurable there, the 4 MiB default holds
    for len in [0x0040_0001u32, 0x0100_0000, 0xFFFF_FFFF, 0x0040_0000, 6] {
        let mut b = frame(0, &[7]);
        b.push(0);
        b.extend_from_slice(&len.to_be_bytes());
        for m in ["none", "5", "1073741824"] {
            out.push(format!("dec empty none {} 8192 5 Z 0 EV d{}", m, bare(&b)));
            out.push(format!("dec empty none {} 8192 6 Z 0 EV d{} p d{}", m, bare(&b[..8]), bare(&b[8..])));
        }
    }
    // (c) "then anything at all": trailers, a body error, more frames after the refused prefix
    for (max, len) in [(None, 0x0040_0001u32), (Some(5u128), 6), (Some(0), 0xFFFF_FFFF)] {
        let mut b = frame(0, &[1, 2]);
        b.push(0);
        b.extend_from_slice(&len.to_be_bytes());
        for dir in ["req", "resp200"] {
            for tail in ["t0", "tnone", "t5", "e13", "e1", "p t0", "d0000000001aa", "d0000000001aa t0", "p e14"] {
                out.push(format!("dec {} none {} 8192 8 Z 0 EV d{} {}", dir, maxs(max), bare(&b), tail));
            }
        }
    }
    // (d) limits at and beyond what a length prefix can say: nothing a peer can declare is refused
    for max in [u32::MAX as u128, 1u128 << 32, (1u128 << 63) - 1, u64::MAX as u128] {
        let mut b = frame(0, &[1, 2]);
        b.extend(frame(0, &[]));
        b.extend(frame(0, &[9; 300]));
        out.push(format!("dec req none {} 8192 6 Z 0 EV d{}", max, bare(&b)));
        // a declared 4 MiB + 1 (over the default, within this limit) with nothing behind it: waited for
        b.push(0);
        b.extend_from_slice(&0x0040_0001u32.to_be_bytes());
        out.push(format!("dec resp200 none {} 1024 7 Z 0 EV d{}", max, bare(&b)));
        out.push(format!("dec req none {} 0 8 Z 0 EV d{} p d{}", max, bare(&b[..b.len() - 2]), bare(&b[b.len() - 2..])));
    }
}

/// Encoder: limits at the ends of the range, and realistic ones (above the 32 KiB batch buffer of
/// the default `BufferSettings`) with the refused message last / in the middle of a ready batch.
pub fn gen_enc_dims(out: &mut Vec<String>) {
    for server in [true, false] {
        for max in [usize::MAX, u32::MAX as usize, 1usize << 32] {
            out.push(
                EncCase { server, comp: None, disable: false, yield_thr: 32768, buf_size: 8192, max: Some(max),
                          evs: vec!["i0102".into(), "i".into(), format!("i{}", hexr(&vec![7u8; 70000]))],
                          items: vec![vec![1, 2], vec![], vec![7; 70000]], extra_polls: 3 }.line(),
            );
        }
        for l in [40000usize, 65536, 1 << 20] {
            for (a, b, c) in [(3usize, l, l + 1), (3, l + 1, 3), (l, l + 1, 0), (20000, 20000, l + 1)] {
                for pend in [false, true] {
                    let mut evs = vec![format!("i{}", hexr(&vec![1u8; a]))];
                    if pend {
                        evs.push("p".into());
                    }
                    evs.push(format!("i{}", hexr(&vec![2u8; b])));
                    evs.push(format!("i{}", hexr(&vec![3u8; c])));
                    out.push(
                        EncCase { server, comp: None, disable: false, yield_thr: 32768, buf_size: 8192, max: Some(l), evs,
                                  items: vec![vec![1; a], vec![2; b], vec![3; c]], extra_polls: 3 }.line(),
                    );
                }
            }
        }
    }
}

// =====================================================================================================
// dech: a body double that gives size hints
// =====================================================================================================

struct HintBody {
    inner: ScriptedBody,
    lower: u64,
    upper: Option<u64>,
}

impl Body for HintBody {
    type Data = Bytes;
    type Error = Status;
    fn poll_frame(mut self: Pin<&mut Self>, cx: &mut Context<'_>) -> Poll<Option<Result<Frame<Bytes>, Status>>> {
        Pin::new(&mut self.inner).poll_frame(cx)
    }
    fn is_end_stream(&self) -> bool {
        false
    }
    fn size_hint(&self) -> SizeHint {
        let mut h = SizeHint::new();
        h.set_lower(self.lower);
        if let Some(u) = self.upper {
            h.set_upper(u.max(self.lower));
        }
        h
    }
}

pub fn gen_dech(tier: &str, rng: &mut Rng, out: &mut Vec<String>) {
    let n = if tier == "thorough" { 1500 } else { 60 };
    let mut base: Vec<(String, usize)> = Vec::new();
    for _ in 0..n {
        let mut c = gen_dec_valid(rng, true);
        if c.dir == "empty" {
            c.dir = "req".into();
        }
        let total = c.stream.len();
        base.push((c.line(), total));
    }
    // oversize announcements
    for (max, len) in [("none", 0x0040_0001u32), ("5", 0xFFFF_FFFF), ("1024", 0x4000_0000)] {
        let mut b = frame(0, &[1, 2]);
        b.push(0);
        b.extend_from_slice(&len.to_be_bytes());
        base.push((format!("dec req none {} 8192 5 Z 0 EV d{}", max, bare(&b)), b.len()));
        base.push((format!("dec resp200 none {} 16 6 Z 0 EV d{} p d{}", max, bare(&b[..9]), bare(&b[9..])), b.len()));
    }
    for (i, (line, total)) in base.iter().enumerate() {
        // lying hints stay allocatable (an implementation that reserves what the hint says shows in
        // the allocation observer instead of killing the process)
        let hints: [(u64, Option<u64>); 6] = [
            (*total as u64, Some(*total as u64)),
            (64 << 20, Some(64 << 20)),
            (256 << 20, None),
            (0, Some(1 << 62)),
            (128 << 20, Some(1 << 40)),
            (0, Some(0)),
        ];
        // every line with the truthful hint and one lying hint; the oversize lines with all
        let picks: Vec<usize> = if i >= n { (0..6).collect() } else { vec![0, 1 + (rng.below(5) as usize)] };
        for p in picks {
            let (l, u) = hints[p];
            out.push(format!("dech {} {} {}", l, u.map(|u| u.to_string()).unwrap_or_else(|| "-".into()), line));
        }
    }
}

/// the raw-codec half of `framing::exec_dec_with`, over a body that gives size hints
pub fn exec_dech(t0: &[&str]) -> String {
    let lower: u64 = t0[1].parse().unwrap();
    let upper: Option<u64> = if t0[2] == "-" { None } else { Some(t0[2].parse().unwrap()) };
    let t = &t0[3..];
    let enc = parse_enc(t[2]);
    let max: Option<usize> = if t[3] == "none" { None } else { Some(t[3].parse().unwrap()) };
    let buf_size: usize = t[4].parse().unwrap();
    let npolls: usize = t[5].parse().unwrap();
    let evp = t.iter().position(|x| *x == "EV").expect("EV") + 1;
    let evs: VecDeque<BodyEv> = t[evp..]
        .iter()
        .map(|e| match e.as_bytes()[0] {
            b'd' => BodyEv::Data(unhexr(&e[1..])),
            b't' => BodyEv::Trailers(if &e[1..] == "none" { None } else { Some(e[1..].parse().unwrap()) }),
            b'e' => BodyEv::Err(e[1..].parse().unwrap()),
            _ => BodyEv::Pending,
        })
        .collect();
    let after = Arc::new(AtomicUsize::new(0));
    let total_data: usize = evs.iter().map(|e| if let BodyEv::Data(d) = e { d.len() } else { 0 }).sum();
    let all_data: Vec<u8> = evs.iter().flat_map(|e| if let BodyEv::Data(d) = e { d.clone() } else { vec![] }).collect();
    let body = HintBody { inner: ScriptedBody { evs, polls_after_end: after.clone() }, lower, upper };
    let bs = BufferSettings::new(buf_size, 32 * 1024);
    let (wakes, waker) = counting_waker(None);
    let mut cx = Context::from_waker(&waker);
    let mut out = Vec::new();
    // the same allocation budget as `dec`: the hint buys nothing
    let limit = max.unwrap_or(4 * 1024 * 1024);
    let zpos = t.iter().position(|x| *x == "Z").unwrap();
    let zk: usize = t[zpos + 1].parse().unwrap();
    let max_raw = (0..zk).map(|i| t[zpos + 2 + 2 * i]).filter(|r| *r != "F").map(|r| (r.len() - 1) / 2).max().unwrap_or(0);
    let budget = 64 * (total_data + buf_size) + 1024 * 1024 + 2 * declared_within(&all_data, limit) + 4 * max_raw;
    reset_max_alloc();
    let mut stream: Streaming<Vec<u8>> = if t[1] == "req" {
        Streaming::new_request(RawDec(bs), body, enc, max)
    } else {
        let code: u16 = t[1][4..].parse().unwrap();
        Streaming::new_response(RawDec(bs), body, http::StatusCode::from_u16(code).unwrap(), enc, max)
    };
    for _ in 0..npolls {
        let (woken_before, refs_before) = (wakes.count(), Arc::strong_count(&wakes));
        match Pin::new(&mut stream).poll_next(&mut cx) {
            Poll::Pending if no_wakeup(&wakes, woken_before, refs_before) => {
                out.push("lost-wakeup".to_string());
                break;
            }
            Poll::Pending => out.push("p".to_string()),
            Poll::Ready(None) => out.push("n".to_string()),
            Poll::Ready(Some(Err(st))) => out.push(st_tok("e", &st)),
            Poll::Ready(Some(Ok(m))) => out.push(format!("m{}", hexr(&m))),
        }
        if after.load(Ordering::SeqCst) > 1000 {
            out.push("busy-loop".into());
            break;
        }
    }
    let biggest = max_alloc();
    out.push(if biggest > budget { "a1".to_string() } else { "a0".to_string() });
    out.join(" ")
}

// =====================================================================================================
// lim.genp: the generated pair along other paths
// =====================================================================================================

fn optl(s: &str) -> Option<usize> {
    if s == "-" {
        None
    } else {
        Some(s.parse().unwrap())
    }
}

async fn genp_calls<T>(mut cli: crate::c10::pool::p0::s_client::SClient<T>, first: bool, j: usize, n: usize) -> String
where
    T: tonic::client::GrpcService<tonic::body::Body>,
    T::Error: Into<tonic::codegen::StdError>,
    T::ResponseBody: tonic::codegen::Body<Data = Bytes> + Send + 'static,
    <T::ResponseBody as tonic::codegen::Body>::Error: Into<tonic::codegen::StdError> + Send,
{
    use crate::c10::pool;
    if first {
        // whatever becomes of it, it must leave nothing behind
        let _ = cli.m0(Request::new(String::new())).await;
    }
    let arg = "x".repeat(n);
    let r: Result<usize, Status> = match j {
        0 => cli.m0(Request::new(arg)).await.map(|_| 1),
        3 => match cli.m3(Request::new(arg)).await {
            Ok(s) => pool::drain(s.into_inner()).await.map(|v| v.len()),
            Err(e) => Err(e),
        },
        4 => cli.m4(Request::new(tokio_stream::iter(vec![arg.clone(), arg]))).await.map(|_| 1),
        _ => match cli.m5(Request::new(tokio_stream::iter(vec![arg.clone(), arg]))).await {
            Ok(s) => pool::drain(s.into_inner()).await.map(|v| v.len()),
            Err(e) => Err(e),
        },
    };
    match r {
        Ok(k) => format!("ok{}", k),
        Err(st) => format!("err{}", st.code() as i32),
    }
}

pub fn exec_lim_genp(t: &[&str]) -> String {
    use crate::c10::pool::{self, Handler};
    use pool::p0::s_client::SClient;
    use pool::p0::s_server::SServer;
    let rt = paused_rt();
    let path = t[1].to_string();
    let t = &t[1..]; // now indexed like a lim.gen case
    rt.block_on(async move {
        let j: usize = t[1].parse().unwrap();
        let (ce, cd, se, sd) = (optl(t[2]), optl(t[3]), optl(t[4]), optl(t[5]));
        let n: usize = t[6].parse().unwrap();
        let decoy = path == "o";
        let mut srv = if path == "a" { SServer::from_arc(Arc::new(Handler::default())) } else { SServer::new(Handler::default()) };
        if let Some(l) = sd {
            if decoy {
                srv = srv.max_decoding_message_size(l + 1000).max_decoding_message_size(l ^ 1);
            }
            srv = srv.max_decoding_message_size(l);
        }
        if let Some(l) = se {
            if decoy {
                srv = srv.max_encoding_message_size(0).max_encoding_message_size(l + 7);
            }
            srv = srv.max_encoding_message_size(l);
        }
        if decoy {
            // compression builders after the limits; nothing is negotiated (the client neither sends nor accepts gzip)
            srv = srv.accept_compressed(CompressionEncoding::Gzip).send_compressed(CompressionEncoding::Zstd);
        }
        macro_rules! client {
            ($transport:expr) => {{
                let mut cli = if path == "a" { SClient::with_origin($transport, http::Uri::from_static("http://example.org")) } else { SClient::new($transport) };
                if let Some(l) = cd {
                    if decoy {
                        cli = cli.max_decoding_message_size(l + 1000).max_decoding_message_size(l ^ 1);
                    }
                    cli = cli.max_decoding_message_size(l);
                }
                if let Some(l) = ce {
                    if decoy {
                        cli = cli.max_encoding_message_size(0).max_encoding_message_size(l + 7);
                    }
                    cli = cli.max_encoding_message_size(l);
                }
                if decoy {
                    cli = cli.accept_compressed(CompressionEncoding::Deflate);
                }
                cli
            }};
        }
        match path.as_str() {
            "k" => {
                let used = srv.clone();
                drop(srv);
                let cli = client!(used);
                let c2 = cli.clone();
                drop(cli);
                genp_calls(c2, false, j, n).await
            }
            "r" => {
                let routes = tonic::service::Routes::new(srv);
                genp_calls(client!(routes), false, j, n).await
            }
            "i" => {
                // the generated client's `with_interceptor`, limits set on what it returns
                let pass = |r: Request<()>| -> Result<Request<()>, Status> { Ok(r) };
                let mut cli = SClient::with_interceptor(srv, pass);
                if let Some(l) = cd {
                    cli = cli.max_decoding_message_size(l);
                }
                if let Some(l) = ce {
                    cli = cli.max_encoding_message_size(l);
                }
                genp_calls(cli, false, j, n).await
            }
            "j" => {
                // the configured server behind an interceptor
                let pass = |r: Request<()>| -> Result<Request<()>, Status> { Ok(r) };
                let isrv = tonic::service::interceptor::InterceptedService::new(srv, pass);
                genp_calls(client!(isrv), false, j, n).await
            }
            "2" => genp_calls(client!(srv), true, j, n).await,
            _ => genp_calls(client!(srv), false, j, n).await,
        }
    })
}

/// every `lim.gen` line of the run again along each of the other paths
pub fn gen_lim_genp(gen_lines: &[String], rng: &mut Rng, out: &mut Vec<String>) {
    for l in gen_lines {
        let rest = l.strip_prefix("lim.gen ").expect("lim.gen line");
        let paths = ["k", "r", "i", "j", "o", "2", "a"];
        // two paths per line (all seven are covered many times over the ~240 lines)
        let a = rng.below(7) as usize;
        let b = (a + 1 + rng.below(6) as usize) % 7;
        for p in [paths[a], paths[b]] {
            out.push(format!("lim.genp {} {}", p, rest));
        }
    }
}

// =====================================================================================================
// lim.seq: one Grpc value, a program of configuration statements and calls
// =====================================================================================================

#[derive(Clone, Copy)]
struct Msg {
    raw: usize,
    #[allow(dead_code)]
    wire: usize,
}

fn parse_msgs(s: &str) -> Vec<Msg> {
    if s.is_empty() || s == "-" {
        return vec![];
    }
    s.split(',')
        .map(|m| match m.split_once('/') {
            Some((r, w)) => Msg { raw: r.parse().unwrap(), wire: w.parse().unwrap() },
            None => {
                let r = m.parse().unwrap();
                Msg { raw: r, wire: r }
            }
        })
        .collect()
}

fn peer_frames(ms: &[Msg], z: bool) -> Vec<Vec<u8>> {
    ms.iter()
        .map(|m| if z { frame(1, &oracle_compress(CompressionEncoding::Gzip, &blob(m.raw))) } else { frame(0, &blob(m.raw)) })
        .collect()
}

type RespStream = Pin<Box<dyn Stream<Item = Result<Vec<u8>, Status>> + Send>>;

#[derive(Clone)]
struct ReplyN {
    rs: Vec<usize>,
    runs: Arc<AtomicUsize>,
    got: Arc<AtomicUsize>,
}

impl ReplyN {
    fn one(&self) -> Vec<u8> {
        blob(self.rs.first().copied().unwrap_or(0))
    }
    fn all(&self) -> RespStream {
        let v: Vec<Result<Vec<u8>, Status>> = self.rs.iter().map(|n| Ok(blob(*n))).collect();
        Box::pin(tokio_stream::iter(v))
    }
}

impl tonic::server::UnaryService<Vec<u8>> for ReplyN {
    type Response = Vec<u8>;
    type Future = Pin<Box<dyn Future<Output = Result<Response<Vec<u8>>, Status>> + Send>>;
    fn call(&mut self, _req: Request<Vec<u8>>) -> Self::Future {
        self.runs.fetch_add(1, Ordering::SeqCst);
        self.got.fetch_add(1, Ordering::SeqCst);
        let m = self.one();
        Box::pin(async move { Ok(Response::new(m)) })
    }
}

impl tonic::server::ServerStreamingService<Vec<u8>> for ReplyN {
    type Response = Vec<u8>;
    type ResponseStream = RespStream;
    type Future = Pin<Box<dyn Future<Output = Result<Response<RespStream>, Status>> + Send>>;
    fn call(&mut self, _req: Request<Vec<u8>>) -> Self::Future {
        self.runs.fetch_add(1, Ordering::SeqCst);
        self.got.fetch_add(1, Ordering::SeqCst);
        let s = self.all();
        Box::pin(async move { Ok(Response::new(s)) })
    }
}

impl tonic::server::ClientStreamingService<Vec<u8>> for ReplyN {
    type Response = Vec<u8>;
    type Future = Pin<Box<dyn Future<Output = Result<Response<Vec<u8>>, Status>> + Send>>;
    fn call(&mut self, req: Request<Streaming<Vec<u8>>>) -> Self::Future {
        self.runs.fetch_add(1, Ordering::SeqCst);
        let got = self.got.clone();
        let m = self.one();
        Box::pin(async move {
            let mut s = req.into_inner();
            // the handler passes a refusal it meets on its incoming stream on as its own answer
            while let Some(_m) = s.message().await? {
                got.fetch_add(1, Ordering::SeqCst);
            }
            Ok(Response::new(m))
        })
    }
}

impl tonic::server::StreamingService<Vec<u8>> for ReplyN {
    type Response = Vec<u8>;
    type ResponseStream = RespStream;
    type Future = Pin<Box<dyn Future<Output = Result<Response<RespStream>, Status>> + Send>>;
    fn call(&mut self, req: Request<Streaming<Vec<u8>>>) -> Self::Future {
        self.runs.fetch_add(1, Ordering::SeqCst);
        let got = self.got.clone();
        let out = self.all();
        Box::pin(async move {
            let mut s = req.into_inner();
            while let Some(_m) = s.message().await? {
                got.fetch_add(1, Ordering::SeqCst);
            }
            Ok(Response::new(out))
        })
    }
}

fn chunked_body(frames: Vec<Vec<u8>>, trailers: Option<http::HeaderMap>) -> tonic::body::Body {
    let mut v: Vec<Result<Frame<Bytes>, Status>> = frames.into_iter().map(|f| Ok(Frame::data(Bytes::from(f)))).collect();
    if let Some(t) = trailers {
        v.push(Ok(Frame::trailers(t)));
    }
    tonic::body::Body::new(http_body_util::StreamBody::new(tokio_stream::iter(v)))
}

async fn seq_server(stmts: &[&str]) -> String {
    let mut grpc = tonic::server::Grpc::new(RawCodec);
    let mut out = Vec::new();
    let mut ncall = 0usize;
    for s in stmts {
        let b = s.as_bytes();
        if let Some((head, rest)) = s.split_once(':') {
            let (qs, rs) = rest.split_once(':').expect("q:r");
            let shape = head.as_bytes()[0];
            let z = head.as_bytes().get(1) == Some(&b'z');
            let qs = parse_msgs(qs);
            let rs = parse_msgs(rs);
            let frames = peer_frames(&qs, z);
            // alternately one chunk with everything (a body with an exact size hint) and a chunk per message
            let body = if ncall % 2 == 0 {
                tonic::body::Body::new(http_body_util::Full::new(Bytes::from(frames.concat())))
            } else {
                chunked_body(frames, None)
            };
            ncall += 1;
            let mut req = http::Request::new(body);
            *req.method_mut() = http::Method::POST;
            req.headers_mut().insert("grpc-accept-encoding", "gzip".parse().unwrap());
            if z {
                req.headers_mut().insert("grpc-encoding", "gzip".parse().unwrap());
            }
            let runs = Arc::new(AtomicUsize::new(0));
            let got = Arc::new(AtomicUsize::new(0));
            let svc = ReplyN { rs: rs.iter().map(|m| m.raw).collect(), runs: runs.clone(), got: got.clone() };
            let resp = match shape {
                b'u' => grpc.unary(svc, req).await,
                b's' => grpc.server_streaming(svc, req).await,
                b'c' => grpc.client_streaming(svc, req).await,
                _ => grpc.streaming(svc, req).await,
            };
            let (parts, body) = resp.into_parts();
            let (frames, data) = drain_body(body).await;
            let code = parts
                .headers
                .get("grpc-status")
                .map(|v| String::from_utf8_lossy(v.as_bytes()).to_string())
                .or_else(|| frames.iter().find(|f| f.starts_with('t')).map(|f| f[1..].split(':').next().unwrap_or("").to_string()))
                .unwrap_or_else(|| "-".into());
            let lost = if frames.iter().any(|f| f == "lost-wakeup") { ",lost-wakeup" } else { "" };
            out.push(format!("{},h{},m{},r{}{}", code, runs.load(Ordering::SeqCst), got.load(Ordering::SeqCst), naive_frame_count(&data), lost));
        } else if *s == "zA" {
            grpc = grpc.accept_compressed(CompressionEncoding::Gzip);
        } else if *s == "zS" {
            grpc = grpc.send_compressed(CompressionEncoding::Gzip);
        } else if b[0] == b'd' {
            grpc = grpc.max_decoding_message_size(s[1..].parse().unwrap());
        } else if b[0] == b'e' {
            grpc = grpc.max_encoding_message_size(s[1..].parse().unwrap());
        } else if b[0] == b'a' {
            let (d, e) = s[1..].split_once('/').expect("a<d>/<e>");
            grpc = grpc.apply_max_message_size_config(optl(d), optl(e));
        } else {
            return "bad-case".into();
        }
    }
    out.join(" ")
}

/// the transport double of a client call: reads the request body to its end (counting the complete
/// messages it received; a failing body aborts the call, as a real transport would) and answers
/// with the frames it was given
#[derive(Clone)]
struct EchoN {
    frames: Arc<std::sync::Mutex<Vec<Vec<u8>>>>,
    z: Arc<std::sync::atomic::AtomicBool>,
    seen: Arc<AtomicUsize>,
}

impl tower::Service<http::Request<tonic::body::Body>> for EchoN {
    type Response = http::Response<tonic::body::Body>;
    type Error = Status;
    type Future = Pin<Box<dyn Future<Output = Result<Self::Response, Status>> + Send>>;
    fn poll_ready(&mut self, _cx: &mut Context<'_>) -> Poll<Result<(), Status>> {
        Poll::Ready(Ok(()))
    }
    fn call(&mut self, req: http::Request<tonic::body::Body>) -> Self::Future {
        let frames = self.frames.lock().unwrap().clone();
        let z = self.z.load(Ordering::SeqCst);
        let seen = self.seen.clone();
        Box::pin(async move {
            use http_body_util::BodyExt;
            let mut body = req.into_body();
            let mut data = Vec::new();
            loop {
                match body.frame().await {
                    None => break,
                    Some(Ok(f)) => {
                        if let Ok(d) = f.into_data() {
                            data.extend_from_slice(&d);
                            seen.store(naive_frame_count(&data), Ordering::SeqCst);
                        }
                    }
                    Some(Err(e)) => return Err(e),
                }
            }
            let mut tr = http::HeaderMap::new();
            tr.insert("grpc-status", "0".parse().unwrap());
            let mut resp = http::Response::new(chunked_body(frames, Some(tr)));
            resp.headers_mut().insert("content-type", "application/grpc".parse().unwrap());
            if z {
                resp.headers_mut().insert("grpc-encoding", "gzip".parse().unwrap());
            }
            Ok(resp)
        })
    }
}

async fn seq_client(stmts: &[&str]) -> String {
    let echo = EchoN { frames: Default::default(), z: Default::default(), seen: Default::default() };
    let mut grpc = tonic::client::Grpc::new(echo.clone());
    let mut out = Vec::new();
    for s in stmts {
        let b = s.as_bytes();
        if let Some((head, rest)) = s.split_once(':') {
            let (qs, rs) = rest.split_once(':').expect("q:r");
            let shape = head.as_bytes()[0];
            let z = head.as_bytes().get(1) == Some(&b'z');
            let qs = parse_msgs(qs);
            let rs = parse_msgs(rs);
            *echo.frames.lock().unwrap() = peer_frames(&rs, z);
            echo.z.store(z, Ordering::SeqCst);
            echo.seen.store(0, Ordering::SeqCst);
            if grpc.ready().await.is_err() {
                return "bad-case".into();
            }
            let path: http::uri::PathAndQuery = "/p.S/M".parse().unwrap();
            let first = blob(qs.first().map(|m| m.raw).unwrap_or(0));
            let all: Vec<Vec<u8>> = qs.iter().map(|m| blob(m.raw)).collect();
            // (response messages delivered, final status)
            let (r, end): (usize, Option<Status>) = match shape {
                b'u' => match grpc.unary(Request::new(first), path, RawCodec).await {
                    Ok(_) => (1, None),
                    Err(st) => (0, Some(st)),
                },
                b'c' => match grpc.client_streaming(Request::new(tokio_stream::iter(all)), path, RawCodec).await {
                    Ok(_) => (1, None),
                    Err(st) => (0, Some(st)),
                },
                _ => {
                    let resp = if shape == b's' {
                        grpc.server_streaming(Request::new(first), path, RawCodec).await
                    } else {
                        grpc.streaming(Request::new(tokio_stream::iter(all)), path, RawCodec).await
                    };
                    match resp {
                        Err(st) => (0, Some(st)),
                        Ok(resp) => {
                            let mut s: Streaming<Vec<u8>> = resp.into_inner();
                            let mut k = 0;
                            loop {
                                match s.message().await {
                                    Ok(Some(_)) => k += 1,
                                    Ok(None) => break (k, None),
                                    Err(st) => break (k, Some(st)),
                                }
                            }
                        }
                    }
                }
            };
            out.push(format!("s{},r{},{}", echo.seen.load(Ordering::SeqCst), r, end.map(|st| format!("err{}", st.code() as i32)).unwrap_or_else(|| "ok".into())));
        } else if *s == "zA" {
            grpc = grpc.accept_compressed(CompressionEncoding::Gzip);
        } else if *s == "zS" {
            grpc = grpc.send_compressed(CompressionEncoding::Gzip);
        } else if *s == "k" {
            let c = grpc.clone();
            drop(grpc);
            grpc = c;
        } else if b[0] == b'd' {
            grpc = grpc.max_decoding_message_size(s[1..].parse().unwrap());
        } else if b[0] == b'e' {
            grpc = grpc.max_encoding_message_size(s[1..].parse().unwrap());
        } else {
            return "bad-case".into();
        }
    }
    out.join(" ")
}

pub fn exec_lim_seq(t: &[&str]) -> String {
    let rt = paused_rt();
    rt.block_on(async move {
        if t[1] == "s" {
            seq_server(&t[2..]).await
        } else {
            seq_client(&t[2..]).await
        }
    })
}

/// a message token: `<raw>` or, when it travels gzip-compressed, `<raw>/<wire>` (the wire length
/// from the reference compressor)
fn msg_tok(raw: usize, z: bool) -> String {
    if z {
        format!("{}/{}", raw, oracle_compress(CompressionEncoding::Gzip, &blob(raw)).len())
    } else {
        raw.to_string()
    }
}

/// gzip wire length of `blob(n)` for n < 1500 (computed once)
fn wire_table() -> &'static Vec<usize> {
    static T: std::sync::OnceLock<Vec<usize>> = std::sync::OnceLock::new();
    T.get_or_init(|| (0..1500usize).map(|n| oracle_compress(CompressionEncoding::Gzip, &blob(n)).len()).collect())
}

/// a raw length whose wire length (under `z`) sits at `target + delta`, if one is found nearby
fn raw_for_wire(target: usize, delta: i64, z: bool) -> usize {
    let want = (target as i64 + delta).max(0) as usize;
    if !z {
        return want;
    }
    // gzip of `blob(n)`: about 20 bytes of overhead for small n, far smaller than n for large n
    wire_table().iter().position(|w| *w == want).unwrap_or(want)
}

pub fn gen_lim_seq(tier: &str, rng: &mut Rng, out: &mut Vec<String>) {
    let thorough = tier == "thorough";
    // ---- corpus: hand-written histories
    for side in ["s", "c"] {
        let a = |d: &str, e: &str| if side == "s" { format!("a{}/{}", d, e) } else { "zA".to_string() };
        // the limits are read at every call; a refused call leaves nothing behind; re-configuration after use
        out.push(format!("lim.seq {side} d5 e7 u-:5:7 u-:6:7 u-:5:8 u-:5:7 d6 u-:6:7 e8 u-:6:8"));
        out.push(format!("lim.seq {side} d5 d9 d3 u-:3:1 u-:4:1 e9 e2 e4 u-:1:4 u-:1:5"));
        out.push(format!("lim.seq {side} {} u-:4194304:1 u-:4194305:1 d4194305 u-:4194305:1 u-:4194306:1", a("-", "-")));
        out.push(format!("lim.seq {side} d3 {} u-:3:9 u-:4:9 {} u-:3:9 u-:3:10", a("-", "9"), a("-", "-")));
        // position of the refused message, all four shapes
        for shape in ["u", "s", "c", "d"] {
            out.push(format!("lim.seq {side} d5 e5 {shape}-:1,5,6,2:1,5,6,2 {shape}-:6,1:1 {shape}-:1:6,1 {shape}-:5,5,5:5,5,5"));
            out.push(format!("lim.seq {side} {shape}-:1,2:3,4 d0 e0 {shape}-:0,0,1:0,0,1 {shape}-:0:0 {shape}-:1:0"));
        }
    }
    out.push("lim.seq s d9 a5/- u-:5:1 u-:6:1 a-/3 u-:5:3 u-:5:4 a7/8 c-:7,8:8 d-:7:8,9".into());
    out.push("lim.seq c d5 e5 k u-:5:5 u-:6:5 u-:5:6 k d6 k u-:5:6".into());
    // compression negotiated: the limits meet the WIRE length (gzip makes a short message longer, a
    // long one shorter), on every shape, whichever builder came first
    {
        let z = |n: usize| msg_tok(n, true);
        let (small, big) = (3usize, 900usize); // 3 B -> 23 B on the wire, 900 B -> far fewer
        let wb = wire_table()[big];
        for shape in ["u", "s", "c", "d"] {
            // server: compressed requests against the decoding limit, compressed responses against the encoding limit
            out.push(format!("lim.seq s zA d{} {shape}z:{}:1 {shape}z:{}:1 d22 {shape}z:{}:1 {shape}z:{},{}:1", wb, z(big), z(big + 300), z(small), z(1), z(small)));
            out.push(format!("lim.seq s d22 zA {shape}z:{},{}:1 {shape}-:22:1 {shape}-:23:1 {shape}z:{}:1", z(2), z(small), z(big)));
            out.push(format!("lim.seq s zS e{} {shape}-:1:{} {shape}-:1:{},{} e22 {shape}-:1:{} {shape}-:1:{},{}", wb, z(big), z(big), z(big + 300), z(small), z(2), z(small)));
            // client: compressed requests against the encoding limit, compressed responses against the decoding limit
            out.push(format!("lim.seq c zS e{} {shape}-:{}:1 {shape}-:{}:1 e22 {shape}-:{}:1 {shape}-:{},{}:1", wb, z(big), z(big + 300), z(small), z(2), z(small)));
            out.push(format!("lim.seq c zA d{} {shape}z:1:{} {shape}z:1:{},{} k d22 {shape}z:1:{} {shape}z:1:{},{}", wb, z(big), z(big), z(big + 300), z(small), z(2), z(small)));
        }
    }
    // ---- random programs
    let n = if thorough { 12000 } else { 500 };
    let lims: [usize; 9] = [0, 1, 2, 5, 30, 31, 64, 1024, 70000];
    for _ in 0..n {
        let side = if rng.chance(1, 2) { "s" } else { "c" };
        let mut toks: Vec<String> = Vec::new();
        let (mut d, mut e): (Option<usize>, Option<usize>) = (None, None);
        let (mut za, mut zs) = (false, false);
        let nst = 2 + rng.below(7);
        let mut ncalls = 0;
        for i in 0..nst {
            let want_call = i + 1 == nst && ncalls == 0;
            if !want_call && rng.chance(1, 2) {
                match rng.below(8) {
                    0 | 1 => {
                        let l = *rng.pick(&lims);
                        d = Some(l);
                        toks.push(format!("d{}", l));
                    }
                    2 | 3 => {
                        let l = *rng.pick(&lims);
                        e = Some(l);
                        toks.push(format!("e{}", l));
                    }
                    4 => {
                        if side == "s" {
                            let nd = if rng.chance(1, 2) { Some(*rng.pick(&lims)) } else { None };
                            let ne = if rng.chance(1, 2) { Some(*rng.pick(&lims)) } else { None };
                            d = nd.or(d);
                            e = ne.or(e);
                            let f = |x: Option<usize>| x.map(|v| v.to_string()).unwrap_or_else(|| "-".into());
                            toks.push(format!("a{}/{}", f(nd), f(ne)));
                        } else {
                            toks.push("k".into());
                        }
                    }
                    5 => {
                        za = true;
                        toks.push("zA".into());
                    }
                    6 => {
                        zs = true;
                        toks.push("zS".into());
                    }
                    _ => {
                        if side == "c" {
                            toks.push("k".into());
                        }
                    }
                }
            } else {
                ncalls += 1;
                let shape = *rng.pick(&["u", "s", "c", "d"]);
                let peer_z = za && rng.chance(1, 2);
                // whose limit meets which messages: server: q against d (peer's, compressed iff peer_z),
                // r against e (ours, compressed iff zS); client: q against e (ours), r against d (peer's)
                let (qz, rz, ql, rl) = if side == "s" { (peer_z, zs, d, e) } else { (zs, peer_z, e, d) };
                let mut pick_len = |rng: &mut Rng, l: Option<usize>, z: bool| -> usize {
                    match (l, rng.below(6)) {
                        (Some(l), 0) => raw_for_wire(l, 0, z),
                        (Some(l), 1) => raw_for_wire(l, 1, z),
                        (Some(l), 2) => raw_for_wire(l, -1, z),
                        (_, 3) => rng.below(8) as usize,
                        (_, 4) => rng.below(1200) as usize,
                        _ => rng.below(40) as usize,
                    }
                };
                let nq = 1 + if shape == "c" || shape == "d" || rng.chance(1, 6) { rng.below(4) as usize } else { 0 };
                let nr = 1 + if shape == "s" || shape == "d" || rng.chance(1, 6) { rng.below(4) as usize } else { 0 };
                let qs: Vec<String> = (0..nq).map(|_| { let n = pick_len(rng, ql, qz); msg_tok(n, qz) }).collect();
                let rs: Vec<String> = (0..nr).map(|_| { let n = pick_len(rng, rl, rz); msg_tok(n, rz) }).collect();
                toks.push(format!("{}{}:{}:{}", shape, if peer_z { "z" } else { "-" }, qs.join(","), rs.join(",")));
            }
        }
        out.push(format!("lim.seq {} {}", side, toks.join(" ")));
    }
}
