//! C08 dimension audit (aC08): case kinds that drive the API routes, call shapes, middleware and
//! transports the other kinds leave out.  Every knob of `e2x` must be INVISIBLE: the outcome is
//! the one the plain `e2e` model predicts for the same metadata.
//!
//! `e2x <cs.ss.rq.rs.st.ic.is.k.tx> <mode> <code> <msg> <det> <req> <resp> <stmd>`
//!   cs  client entry point: 0 = unary / server_streaming, 1 = client_streaming / streaming
//!   ss  server entry point: 0 = unary / server_streaming, 1 = client_streaming / streaming
//!   rq  how the caller builds the Request: 0 new + metadata_mut assignment, 1 from_parts,
//!       2 new(()) + map, 3 IntoRequest + entry-by-entry appends, 4 into_parts → from_parts,
//!       5 as 0, then set_timeout(1 h) (one more entry: grpc-timeout 3600000m)
//!   rs  how the handler builds the Response (0 new, 1 from_parts, 2 map, 3 From<T> + appends,
//!       4 into_parts → from_parts)
//!   st  how the handler builds the Status (0 with_details_and_metadata, 1 with_details +
//!       metadata_mut assignment, 2 a clone (original dropped first), 3 with a source attached,
//!       4 with_metadata (when there are no details), 5 with_details + entry-by-entry appends)
//!   ic  client-side interceptor: 0 none, 1 pass-through InterceptedService::new, 2 one that takes
//!       the request apart and returns a fresh one, 3 pass-through via InterceptorLayer
//!   is  server-side interceptor: 0 none, 1 pass-through, 2 fresh request, 3 (mode err only) the
//!       interceptor itself rejects the call with the status
//!   k   messages the response stream yields before it ends with Err(status) (sserr / umix)
//!   tx  0 = in-process hand-over, 1 = tonic::transport::Channel ↔ tonic::transport::Server over
//!       real hyper/h2 on an in-memory duplex pipe (user-agent of tonic itself and hyper's
//!       `date` are taken out of the views: they are the transport's own), 2 = in-process
//!       hand-over THROUGH tonic-web (GrpcWebClientLayer → GrpcWebLayer → the gRPC service): the
//!       grpc-web translation of messages, headers and the trailers block must be invisible too
//!       (the `accept-encoding` the server layer adds is taken out of the request views)
//!   modes ok | err | sserr | umix as for `e2e`; umix with k ≥ 1: a unary client that gets a
//!   message and then error trailers (code ≠ 0: the status as it is) or OK trailers carrying
//!   metadata (code 0: the handler ended the stream with Err(Status::ok + metadata); the client
//!   merges them into the response metadata).
use super::{build_typed, parse_typed, status_view, typed_tok, typed_view, RawCodec, Typed};
use crate::c04::render_map;
use crate::common::*;
use http_body::Body as HttpBody;
use std::future::Future;
use std::pin::Pin;
use std::sync::{Arc, Mutex};
use std::task::{Context, Poll};
use std::time::Duration;
use tonic::body::Body;
use tonic::metadata::{Ascii, Binary, MetadataKey, MetadataMap, MetadataValue};
use tonic::service::interceptor::{InterceptedService, InterceptorLayer};
use tonic::{Code, IntoRequest, Request, Response, Status, Streaming};
use tower::{Layer, Service, ServiceExt};

type BoxFut<T> = Pin<Box<dyn Future<Output = T> + Send>>;

#[derive(Clone, Debug)]
struct Cfg {
    cs: u8,
    ss: u8,
    rq: u8,
    rs: u8,
    st: u8,
    ic: u8,
    is: u8,
    k: usize,
    tx: u8,
    mode: String,
    code: i32,
    msg: String,
    det: Vec<u8>,
    req: Typed,
    resp: Typed,
    stmd: Typed,
}

#[derive(Default)]
struct Seen {
    reqwire: Option<String>,
    srv: Option<String>,
    respwire: Option<String>,
}

#[derive(Debug)]
struct Leaf;
impl std::fmt::Display for Leaf {
    fn fmt(&self, f: &mut std::fmt::Formatter<'_>) -> std::fmt::Result {
        write!(f, "leaf")
    }
}
impl std::error::Error for Leaf {}

/// what user code does entry by entry: `map.append(key.parse()?, value.try_into()?)`
fn append_typed(m: &mut MetadataMap, es: &Typed) {
    for (b, k, v) in es {
        if *b {
            if let Ok(key) = MetadataKey::<Binary>::from_bytes(k) {
                m.append_bin(key, MetadataValue::<Binary>::from_bytes(v));
            }
        } else if let Ok(key) = MetadataKey::<Ascii>::from_bytes(k) {
            if let Ok(val) = MetadataValue::<Ascii>::try_from(&v[..]) {
                m.append(key, val);
            }
        }
    }
}

fn build_status(c: &Cfg) -> Status {
    let code = Code::from_i32(c.code);
    let md = build_typed(&c.stmd);
    let det: bytes::Bytes = c.det.clone().into();
    match c.st {
        1 => {
            let mut s = Status::with_details(code, c.msg.clone(), det);
            *s.metadata_mut() = md;
            s
        }
        2 => {
            let s = Status::with_details_and_metadata(code, c.msg.clone(), det, md);
            let copy = s.clone();
            drop(s);
            copy
        }
        3 => {
            let mut s = Status::with_details_and_metadata(code, c.msg.clone(), det, md);
            s.set_source(Arc::new(Leaf));
            s
        }
        4 if c.det.is_empty() => Status::with_metadata(code, c.msg.clone(), md),
        5 => {
            let mut s = Status::with_details(code, c.msg.clone(), det);
            append_typed(s.metadata_mut(), &c.stmd);
            s
        }
        _ => Status::with_details_and_metadata(code, c.msg.clone(), det, md),
    }
}

fn build_response<T>(c: &Cfg, m: T) -> Response<T> {
    let md = build_typed(&c.resp);
    match c.rs {
        1 => Response::from_parts(md, m, http::Extensions::new()),
        2 => {
            let mut r = Response::new(());
            *r.metadata_mut() = md;
            r.map(move |_| m)
        }
        3 => {
            let mut r = Response::from(m);
            append_typed(r.metadata_mut(), &c.resp);
            r
        }
        4 => {
            let mut r = Response::new(m);
            *r.metadata_mut() = md;
            let (md, m, ext) = r.into_parts();
            Response::from_parts(md, m, ext)
        }
        _ => {
            let mut r = Response::new(m);
            *r.metadata_mut() = md;
            r
        }
    }
}

fn build_request<T>(c: &Cfg, m: T) -> Request<T> {
    let md = build_typed(&c.req);
    match c.rq {
        1 => Request::from_parts(md, http::Extensions::new(), m),
        2 => {
            let mut r = Request::new(());
            *r.metadata_mut() = md;
            r.map(move |_| m)
        }
        3 => {
            let mut r = m.into_request();
            append_typed(r.metadata_mut(), &c.req);
            r
        }
        4 => {
            let mut r = Request::new(m);
            *r.metadata_mut() = md;
            let (md, ext, m) = r.into_parts();
            Request::from_parts(md, ext, m)
        }
        5 => {
            let mut r = Request::new(m);
            *r.metadata_mut() = md;
            r.set_timeout(Duration::from_secs(3600));
            r
        }
        _ => {
            let mut r = Request::new(m);
            *r.metadata_mut() = md;
            r
        }
    }
}

type Items = tokio_stream::Iter<std::vec::IntoIter<Result<Vec<u8>, Status>>>;

fn response_items(c: &Cfg) -> Items {
    let mut items: Vec<Result<Vec<u8>, Status>> = (0..c.k).map(|i| Ok(vec![i as u8; 3])).collect();
    items.push(Err(build_status(c)));
    tokio_stream::iter(items)
}

/// tonic's own server call machinery around the scripted handler
async fn serve(hreq: http::Request<Body>, c: Arc<Cfg>, seen: Arc<Mutex<Seen>>) -> http::Response<Body> {
    let mut server = tonic::server::Grpc::new(RawCodec);
    let stream_like = c.mode == "sserr" || c.mode == "umix";
    let hresp = match (stream_like, c.ss) {
        (true, 0) => {
            let (c2, seen2) = (c.clone(), seen.clone());
            let handler = tower::service_fn(move |r: Request<Vec<u8>>| {
                seen2.lock().unwrap().srv = Some(srv_view(r.metadata(), &c2));
                let c = c2.clone();
                async move { Ok::<_, Status>(build_response(&c, response_items(&c))) }
            });
            server.server_streaming(handler, hreq).await
        }
        (true, _) => {
            let (c2, seen2) = (c.clone(), seen.clone());
            let handler = tower::service_fn(move |r: Request<Streaming<Vec<u8>>>| {
                seen2.lock().unwrap().srv = Some(srv_view(r.metadata(), &c2));
                let c = c2.clone();
                async move {
                    let mut s = r.into_inner();
                    while let Ok(Some(_)) = s.message().await {}
                    Ok::<_, Status>(build_response(&c, response_items(&c)))
                }
            });
            server.streaming(handler, hreq).await
        }
        (false, 0) => {
            let (c2, seen2) = (c.clone(), seen.clone());
            let handler = tower::service_fn(move |r: Request<Vec<u8>>| {
                seen2.lock().unwrap().srv = Some(srv_view(r.metadata(), &c2));
                let c = c2.clone();
                async move {
                    if c.mode == "err" {
                        Err(build_status(&c))
                    } else {
                        Ok(build_response(&c, vec![1u8, 2, 3]))
                    }
                }
            });
            server.unary(handler, hreq).await
        }
        (false, _) => {
            let (c2, seen2) = (c.clone(), seen.clone());
            let handler = tower::service_fn(move |r: Request<Streaming<Vec<u8>>>| {
                seen2.lock().unwrap().srv = Some(srv_view(r.metadata(), &c2));
                let c = c2.clone();
                async move {
                    let mut s = r.into_inner();
                    while let Ok(Some(_)) = s.message().await {}
                    if c.mode == "err" {
                        Err(build_status(&c))
                    } else {
                        Ok(build_response(&c, vec![1u8, 2, 3]))
                    }
                }
            });
            server.client_streaming(handler, hreq).await
        }
    };
    seen.lock().unwrap().respwire = Some(render_map(hresp.headers()));
    hresp
}

const TX_OWN_RESPONSE: [&str; 1] = ["date"];

fn srv_view(m: &MetadataMap, c: &Cfg) -> String {
    if c.tx == 2 {
        typed_view(&MetadataMap::from_headers(strip_web_own(&m.clone().into_headers())))
    } else if c.tx == 1 {
        typed_view(&MetadataMap::from_headers(strip_own_user_agent(&m.clone().into_headers())))
    } else {
        typed_view(m)
    }
}

/// what tonic-web's server layer adds to the request it hands to the gRPC service (tx = 2)
fn strip_web_own(h: &http::HeaderMap) -> http::HeaderMap {
    let mut h = h.clone();
    let own = {
        let vs: Vec<&http::HeaderValue> = h.get_all("accept-encoding").iter().collect();
        vs.len() == 1 && vs[0].as_bytes() == b"identity,deflate,gzip"
    };
    if own {
        h.remove("accept-encoding");
    }
    h
}

/// the transport's own `user-agent` (tonic/<version>, set by Channel's UserAgent layer)
fn strip_own_user_agent(h: &http::HeaderMap) -> http::HeaderMap {
    let mut h = h.clone();
    let own = {
        let vs: Vec<&http::HeaderValue> = h.get_all("user-agent").iter().collect();
        vs.len() == 1 && {
            let v = vs[0].as_bytes();
            v.starts_with(b"tonic/") && v[6..].iter().all(|b| b.is_ascii_digit() || *b == b'.')
        }
    };
    if own {
        h.remove("user-agent");
    }
    h
}

/// the server as the transport (or the in-process hand-over) sees it: optional interceptor
/// around `serve`
async fn server_entry(hreq: http::Request<Body>, c: Arc<Cfg>, seen: Arc<Mutex<Seen>>) -> http::Response<Body> {
    {
        let h = if c.tx == 1 {
            strip_own_user_agent(hreq.headers())
        } else if c.tx == 2 {
            strip_web_own(hreq.headers())
        } else {
            hreq.headers().clone()
        };
        seen.lock().unwrap().reqwire = Some(render_map(&h));
    }
    if c.is == 0 {
        return serve(hreq, c, seen).await;
    }
    let (c2, seen2) = (c.clone(), seen.clone());
    let inner = tower::service_fn(move |r: http::Request<Body>| {
        let (c, seen) = (c2.clone(), seen2.clone());
        async move { Ok::<_, std::convert::Infallible>(serve(r, c, seen).await) }
    });
    let (c3, seen3) = (c.clone(), seen.clone());
    let icpt = move |r: Request<()>| -> Result<Request<()>, Status> {
        if c3.is == 3 && c3.mode == "err" {
            // the interceptor is the server-side receiver of this request's metadata
            seen3.lock().unwrap().srv = Some(srv_view(r.metadata(), &c3));
        }
        match c3.is {
            2 => {
                let (md, ext, ()) = r.into_parts();
                Ok(Request::from_parts(md, ext, ()))
            }
            3 if c3.mode == "err" => Err(build_status(&c3)),
            _ => Ok(r),
        }
    };
    let mut svc = InterceptedService::new(inner, icpt);
    let resp = svc.ready().await.unwrap().call(hreq).await.unwrap();
    if c.is == 3 && c.mode == "err" {
        // the handler is never reached: what the interceptor's request view would have shown is
        // not observed; the response is what goes on the wire
        let mut s = seen.lock().unwrap();
        s.respwire = Some(render_map(resp.headers()));
    }
    resp.map(Body::new)
}

fn view_without(m: &MetadataMap, drop_names: &[&str]) -> String {
    if drop_names.is_empty() {
        return typed_view(m);
    }
    let mut h = m.clone().into_headers();
    for n in drop_names {
        h.remove(*n);
    }
    typed_view(&MetadataMap::from_headers(h))
}

fn status_view_without(st: &Status, drop_names: &[&str]) -> String {
    if drop_names.is_empty() {
        return status_view(st);
    }
    let mut h = st.metadata().clone().into_headers();
    for n in drop_names {
        h.remove(*n);
    }
    let st2 = Status::with_details_and_metadata(st.code(), st.message().to_string(), bytes::Bytes::copy_from_slice(st.details()), MetadataMap::from_headers(h));
    status_view(&st2)
}

async fn client_call<T>(svc: T, c: &Cfg) -> String
where
    T: tonic::client::GrpcService<Body>,
    T::ResponseBody: HttpBody + Send + 'static,
    <T::ResponseBody as HttpBody>::Error: Into<Box<dyn std::error::Error + Send + Sync>>,
{
    let own: &[&str] = if c.tx == 1 { &TX_OWN_RESPONSE } else { &[] };
    let mut client = tonic::client::Grpc::new(svc);
    let path = http::uri::PathAndQuery::from_static("/verif.Svc/Method");
    if client.ready().await.is_err() {
        return "client-not-ready".into();
    }
    if c.mode == "sserr" {
        let r = if c.cs == 0 {
            client.server_streaming::<Vec<u8>, Vec<u8>, _>(build_request(c, vec![9u8]), path, RawCodec).await
        } else {
            client.streaming::<_, Vec<u8>, Vec<u8>, _>(build_request(c, tokio_stream::iter(vec![vec![9u8], vec![8u8]])), path, RawCodec).await
        };
        match r {
            Ok(r) => {
                let head = view_without(r.metadata(), own);
                let mut s = r.into_inner();
                let mut got = 0usize;
                let tail = loop {
                    match s.message().await {
                        Ok(Some(_)) => got += 1,
                        Ok(None) => {
                            break match s.trailers().await {
                                Ok(Some(t)) => format!("end some {}", view_without(&t, &[])),
                                Ok(None) => "end none".to_string(),
                                Err(_) => "end trailers-err".to_string(),
                            }
                        }
                        Err(st) => break format!("err {}", status_view(&st)),
                    }
                };
                if got != c.k {
                    return format!("wrong-message-count {}", got);
                }
                format!("ok {} then {}", head, tail)
            }
            Err(st) => format!("err {}", status_view_without(&st, own)),
        }
    } else {
        let r = if c.cs == 0 {
            client.unary::<Vec<u8>, Vec<u8>, _>(build_request(c, vec![9u8]), path, RawCodec).await
        } else {
            client.client_streaming::<_, Vec<u8>, Vec<u8>, _>(build_request(c, tokio_stream::iter(vec![vec![9u8], vec![8u8]])), path, RawCodec).await
        };
        match r {
            Ok(r) => format!("ok {}", view_without(r.metadata(), own)),
            Err(st) => format!("err {}", status_view_without(&st, own)),
        }
    }
}

// ---------------------------------------------------------------------------------------------
// real transport

#[derive(Clone)]
struct TxSvc {
    c: Arc<Cfg>,
    seen: Arc<Mutex<Seen>>,
}
impl tonic::server::NamedService for TxSvc {
    const NAME: &'static str = "verif.Svc";
}
impl Service<http::Request<Body>> for TxSvc {
    type Response = http::Response<Body>;
    type Error = std::convert::Infallible;
    type Future = BoxFut<Result<Self::Response, Self::Error>>;
    fn poll_ready(&mut self, _cx: &mut Context<'_>) -> Poll<Result<(), Self::Error>> {
        Poll::Ready(Ok(()))
    }
    fn call(&mut self, req: http::Request<Body>) -> Self::Future {
        let (c, seen) = (self.c.clone(), self.seen.clone());
        Box::pin(async move { Ok(server_entry(req, c, seen).await) })
    }
}

#[derive(Clone)]
struct PipeConnector {
    c: Arc<Cfg>,
    seen: Arc<Mutex<Seen>>,
    stops: Arc<Mutex<Vec<tokio::sync::oneshot::Sender<()>>>>,
}
impl Service<http::Uri> for PipeConnector {
    type Response = hyper_util::rt::TokioIo<tokio::io::DuplexStream>;
    type Error = std::io::Error;
    type Future = BoxFut<Result<Self::Response, Self::Error>>;
    fn poll_ready(&mut self, _cx: &mut Context<'_>) -> Poll<Result<(), Self::Error>> {
        Poll::Ready(Ok(()))
    }
    fn call(&mut self, _uri: http::Uri) -> Self::Future {
        let me = self.clone();
        Box::pin(async move {
            let (client_io, server_io) = tokio::io::duplex(256 * 1024);
            let (stop_tx, stop_rx) = tokio::sync::oneshot::channel::<()>();
            me.stops.lock().unwrap().push(stop_tx);
            let svc = TxSvc { c: me.c.clone(), seen: me.seen.clone() };
            tokio::spawn(async move {
                use tokio_stream::StreamExt;
                let incoming = tokio_stream::once(Ok::<_, std::io::Error>(server_io)).chain(tokio_stream::pending());
                let _ = tonic::transport::Server::builder()
                    .add_service(svc)
                    .serve_with_incoming_shutdown(incoming, async move {
                        let _ = stop_rx.await;
                    })
                    .await;
            });
            Ok(hyper_util::rt::TokioIo::new(client_io))
        })
    }
}

// ---------------------------------------------------------------------------------------------

fn parse_cfg<'a>(it: &mut impl Iterator<Item = &'a str>) -> Option<Cfg> {
    let knobs: Vec<u64> = it.next()?.split('.').map(|t| t.parse::<u64>().ok()).collect::<Option<Vec<_>>>()?;
    if knobs.len() != 9 {
        return None;
    }
    let mode = it.next()?.to_string();
    let code: i32 = it.next()?.parse().ok()?;
    let msg = String::from_utf8(unhex(it.next()?)?).ok()?;
    let det = unhex(it.next()?)?;
    let req = parse_typed(it)?;
    let resp = parse_typed(it)?;
    let stmd = parse_typed(it)?;
    Some(Cfg {
        cs: knobs[0] as u8,
        ss: knobs[1] as u8,
        rq: knobs[2] as u8,
        rs: knobs[3] as u8,
        st: knobs[4] as u8,
        ic: knobs[5] as u8,
        is: knobs[6] as u8,
        k: knobs[7] as usize,
        tx: knobs[8] as u8,
        mode,
        code,
        msg,
        det,
        req,
        resp,
        stmd,
    })
}

async fn with_client_interceptor<S>(svc: S, c: &Cfg) -> String
where
    S: Service<http::Request<Body>, Response = http::Response<Body>> + Send + 'static,
    S::Error: Into<Box<dyn std::error::Error + Send + Sync>> + Send,
    S::Future: Send,
{
    let fresh = |r: Request<()>| -> Result<Request<()>, Status> {
        let (md, ext, ()) = r.into_parts();
        Ok(Request::from_parts(md, ext, ()))
    };
    let pass = |r: Request<()>| -> Result<Request<()>, Status> { Ok(r) };
    match c.ic {
        1 => client_call(InterceptedService::new(svc, pass), c).await,
        2 => client_call(InterceptedService::new(svc, fresh), c).await,
        3 => client_call(InterceptorLayer::new(pass).layer(svc), c).await,
        _ => client_call(svc, c).await,
    }
}

fn run_e2x(c: Cfg) -> String {
    let c = Arc::new(c);
    let seen = Arc::new(Mutex::new(Seen::default()));
    let client_side = if c.tx == 1 {
        let rt = paused_rt();
        let (c2, seen2) = (c.clone(), seen.clone());
        rt.block_on(async move {
            let stops = Arc::new(Mutex::new(Vec::new()));
            let connector = PipeConnector { c: c2.clone(), seen: seen2.clone(), stops: stops.clone() };
            let endpoint = tonic::transport::Endpoint::from_static("http://verif.test");
            let channel = match tokio::time::timeout(Duration::from_secs(30), endpoint.connect_with_connector(connector)).await {
                Ok(Ok(ch)) => ch,
                Ok(Err(_)) => return "connect-failed".to_string(),
                Err(_) => return "hang".to_string(),
            };
            let out = match tokio::time::timeout(Duration::from_secs(60), with_client_interceptor(channel, &c2)).await {
                Ok(s) => s,
                Err(_) => "hang".to_string(),
            };
            for s in stops.lock().unwrap().drain(..) {
                let _ = s.send(());
            }
            out
        })
    } else if c.tx == 2 {
        // in-process hand-over THROUGH tonic-web: GrpcWebClientLayer on the caller's side,
        // GrpcWebLayer in front of the gRPC service; every message, header and trailer crosses
        // the grpc-web translation in both directions
        let (c2, seen2) = (c.clone(), seen.clone());
        let inner = tower::service_fn(move |hreq: http::Request<Body>| {
            let (c, seen) = (c2.clone(), seen2.clone());
            async move { Ok::<_, std::convert::Infallible>(server_entry(hreq, c, seen).await) }
        });
        let web_srv = tonic_web::GrpcWebLayer::new().layer(inner);
        let web_cli = tonic_web::GrpcWebClientLayer::new().layer(web_srv);
        let svc = tower::service_fn(move |hreq: http::Request<Body>| {
            let mut w = web_cli.clone();
            async move { w.call(hreq).await.map(|r| r.map(Body::new)) }
        });
        let rt = tokio::runtime::Builder::new_current_thread().build().unwrap();
        let c3 = c.clone();
        rt.block_on(async move { with_client_interceptor(svc, &c3).await })
    } else {
        let (c2, seen2) = (c.clone(), seen.clone());
        let svc = tower::service_fn(move |hreq: http::Request<Body>| {
            let (c, seen) = (c2.clone(), seen2.clone());
            async move { Ok::<_, Status>(server_entry(hreq, c, seen).await) }
        });
        let rt = tokio::runtime::Builder::new_current_thread().build().unwrap();
        let c3 = c.clone();
        rt.block_on(async move { with_client_interceptor(svc, &c3).await })
    };
    let s = seen.lock().unwrap();
    format!(
        "reqwire {} srv {} respwire {} client {}",
        s.reqwire.clone().unwrap_or("none".into()),
        s.srv.clone().unwrap_or("none".into()),
        s.respwire.clone().unwrap_or("none".into()),
        client_side
    )
}


// ---------------------------------------------------------------------------------------------
// `peer`: the other end is NOT tonic — a scripted peer puts arbitrary legal headers / trailers on
// the wire (padded and unpadded base64 under -bin names, repeated names, metadata in OK trailers,
// request trailers) and tonic's receiving half presents them through the typed API.
//
//   peer cli <u|s> <hmap H> <nmsg> <0|1> [<hmap T>]   tonic client (unary | server_streaming) facing a
//        response with headers H, nmsg messages and (1) a trailers frame T
//   peer srv <u|s> <hmap H> <0|1> [<hmap T>]          tonic server (unary | streaming handler) given
//        a request with headers H, one message and (1) request trailers T
// Observed (cli, after `peer client`): u: `ok <view>` | `err <status>`; s: `ok <view> msgs <n> then end some <view> | end none | err <status>`
//           srv u: `srv <view> client <code>`; srv s: `srv <view> tr some <view> | tr none client <code>`

fn grpc_frame(payload: &[u8]) -> bytes::Bytes {
    let mut b = vec![0u8];
    b.extend_from_slice(&(payload.len() as u32).to_be_bytes());
    b.extend_from_slice(payload);
    b.into()
}

fn scripted_body(nmsg: usize, trailers: Option<http::HeaderMap>) -> Body {
    let mut frames: Vec<Result<http_body::Frame<bytes::Bytes>, Status>> = (0..nmsg).map(|i| Ok(http_body::Frame::data(grpc_frame(&[i as u8, 1, 2])))).collect();
    if let Some(t) = trailers {
        frames.push(Ok(http_body::Frame::trailers(t)));
    }
    Body::new(http_body_util::StreamBody::new(tokio_stream::iter(frames)))
}

fn run_peer<'a>(it: &mut impl Iterator<Item = &'a str>) -> Option<String> {
    let side = it.next()?;
    let shape = it.next()?.to_string();
    let headers = crate::c04::parse_entries(it)?;
    let rt = tokio::runtime::Builder::new_current_thread().build().unwrap();
    match side {
        "cli" => {
            let nmsg: usize = it.next()?.parse().ok()?;
            let trailers = if it.next()? == "1" { Some(crate::c04::parse_entries(it)?) } else { None };
            let svc = tower::service_fn(move |_req: http::Request<Body>| {
                let mut resp = http::Response::new(scripted_body(nmsg, trailers.clone()));
                *resp.headers_mut() = headers.clone();
                async move { Ok::<_, Status>(resp) }
            });
            Some(rt.block_on(async move {
                let mut client = tonic::client::Grpc::new(svc);
                client.ready().await.unwrap();
                let path = http::uri::PathAndQuery::from_static("/verif.Svc/Method");
                if shape == "u" {
                    match client.unary::<Vec<u8>, Vec<u8>, _>(Request::new(vec![9u8]), path, RawCodec).await {
                        Ok(r) => format!("peer client ok {}", typed_view(r.metadata())),
                        Err(st) => format!("peer client err {}", status_view(&st)),
                    }
                } else {
                    match client.server_streaming::<Vec<u8>, Vec<u8>, _>(Request::new(vec![9u8]), path, RawCodec).await {
                        Ok(r) => {
                            let head = typed_view(r.metadata());
                            let mut s = r.into_inner();
                            let mut got = 0usize;
                            let tail = loop {
                                match s.message().await {
                                    Ok(Some(_)) => got += 1,
                                    Ok(None) => {
                                        break match s.trailers().await {
                                            Ok(Some(t)) => format!("end some {}", typed_view(&t)),
                                            Ok(None) => "end none".to_string(),
                                            Err(_) => "end trailers-err".to_string(),
                                        }
                                    }
                                    Err(st) => break format!("err {}", status_view(&st)),
                                }
                            };
                            format!("peer client ok {} msgs {} then {}", head, got, tail)
                        }
                        Err(st) => format!("peer client err {}", status_view(&st)),
                    }
                }
            }))
        }
        "srv" => {
            let trailers = if it.next()? == "1" { Some(crate::c04::parse_entries(it)?) } else { None };
            let mut hreq = http::Request::new(scripted_body(1, trailers));
            *hreq.method_mut() = http::Method::POST;
            *hreq.version_mut() = http::Version::HTTP_2;
            *hreq.uri_mut() = http::Uri::from_static("http://verif.test/verif.Svc/Method");
            *hreq.headers_mut() = headers;
            let seen: Arc<Mutex<Option<String>>> = Arc::new(Mutex::new(None));
            let seen2 = seen.clone();
            let code = rt.block_on(async move {
                let mut server = tonic::server::Grpc::new(RawCodec);
                let hresp = if shape == "u" {
                    let handler = tower::service_fn(move |r: Request<Vec<u8>>| {
                        *seen2.lock().unwrap() = Some(format!("srv {}", typed_view(r.metadata())));
                        async move { Ok::<_, Status>(Response::new(vec![1u8])) }
                    });
                    server.unary(handler, hreq).await
                } else {
                    let handler = tower::service_fn(move |r: Request<Streaming<Vec<u8>>>| {
                        let seen2 = seen2.clone();
                        async move {
                            let head = typed_view(r.metadata());
                            let mut s = r.into_inner();
                            while let Ok(Some(_)) = s.message().await {}
                            let tr = match s.trailers().await {
                                Ok(Some(t)) => format!("tr some {}", typed_view(&t)),
                                Ok(None) => "tr none".to_string(),
                                Err(_) => "tr err".to_string(),
                            };
                            *seen2.lock().unwrap() = Some(format!("srv {} {}", head, tr));
                            Ok::<_, Status>(Response::new(tokio_stream::iter(vec![Ok::<_, Status>(vec![1u8])])))
                        }
                    });
                    server.streaming(handler, hreq).await
                };
                // drive the response body to its trailers: the status the peer would get
                use http_body_util::BodyExt;
                let (parts, body) = hresp.into_parts();
                let mut code = parts.headers.get("grpc-status").map(|v| String::from_utf8_lossy(v.as_bytes()).to_string());
                let mut body = std::pin::pin!(body);
                while let Some(Ok(f)) = body.frame().await {
                    if let Some(t) = f.trailers_ref() {
                        code = t.get("grpc-status").map(|v| String::from_utf8_lossy(v.as_bytes()).to_string());
                    }
                }
                code.unwrap_or("none".into())
            });
            let s = seen.lock().unwrap().clone().unwrap_or("srv notcalled".into());
            Some(format!("{} client {}", s, code))
        }
        _ => None,
    }
}

// ---------------------------------------------------------------------------------------------
// `mapi <hmap>`: the map-level API around the accessors: len / keys_len / is_empty, the size
// hints of every iterator (a hint that does not bracket the real count is what `collect`,
// `ExactSizeIterator::len` and `Vec::with_capacity` callers trust), with_capacity / reserve /
// capacity, clone independence, clear and re-use after clear.
// Observed: `len <n> keys <n> empty <0|1> hints <0|1> cap <0|1> clone <0|1> cleared <len> <keys> reuse <view>`

fn brackets(h: (usize, Option<usize>), n: usize) -> bool {
    h.0 <= n && h.1.map(|u| n <= u).unwrap_or(true)
}

fn run_mapi<'a>(it: &mut impl Iterator<Item = &'a str>) -> Option<String> {
    let h = crate::c04::parse_entries(it)?;
    let m = MetadataMap::from_headers(h.clone());
    let n = m.iter().count();
    let nk = m.keys().count();
    let mut hints = brackets(m.iter().size_hint(), n) && brackets(m.values().size_hint(), n) && brackets(m.keys().size_hint(), nk) && m.keys().len() == nk;
    {
        let mut mm = m.clone();
        hints &= brackets(mm.iter_mut().size_hint(), n);
        hints &= brackets(mm.values_mut().size_hint(), n);
    }
    // partially consumed iterators
    {
        // (not `iter()`: http 1.5.0's `header::Iter::size_hint` reports a lower bound one too high
        // once the head of the last name has been yielded - an upstream quirk that concerns no
        // clause of C08; tonic passes the hint through)
        let mut k = m.keys();
        let mut left = nk;
        while left > 0 {
            k.next();
            left -= 1;
            hints &= brackets(k.size_hint(), left) && k.len() == left;
        }
    }
    for name in h.keys() {
        let cnt = h.get_all(name).iter().count();
        if name.as_str().ends_with("-bin") {
            hints &= brackets(m.get_all_bin(name.as_str()).iter().size_hint(), cnt) && m.get_all_bin(name.as_str()).iter().count() == cnt;
        } else {
            hints &= brackets(m.get_all(name.as_str()).iter().size_hint(), cnt) && m.get_all(name.as_str()).iter().count() == cnt;
        }
    }
    let cap = {
        let w = MetadataMap::with_capacity(n + 3);
        let mut r = m.clone();
        r.reserve(17);
        w.is_empty() && w.len() == 0 && w.capacity() >= n + 3 && typed_view(&r) == typed_view(&m) && r.len() == m.len() && r.capacity() >= r.keys_len()
    };
    let clone_ok = {
        let mut c = m.clone();
        c.insert("x-clone-only", MetadataValue::from_static("1"));
        c.remove("x-a");
        let keep = m.clone();
        drop(c);
        typed_view(&keep) == typed_view(&m) && !m.contains_key("x-clone-only") && render_map(&m.clone().into_headers()) == render_map(&h)
    };
    let mut c = m.clone();
    c.clear();
    let cleared = format!("{} {}", c.len(), c.keys_len());
    c.append("x-a", MetadataValue::from_static("1"));
    c.append_bin("k-bin", MetadataValue::from_bytes(&[1, 2]));
    Some(format!(
        "len {} keys {} empty {} hints {} cap {} clone {} cleared {} reuse {}",
        m.len(),
        m.keys_len(),
        m.is_empty() as u8,
        hints as u8,
        cap as u8,
        clone_ok as u8,
        cleared,
        typed_view(&c)
    ))
}

pub fn execute<'a>(kind: &str, it: &mut impl Iterator<Item = &'a str>) -> String {
    match kind {
        "mapi" => run_mapi(it).unwrap_or_else(|| "bad-case".into()),
        "peer" => run_peer(it).unwrap_or_else(|| "bad-case".into()),
        "e2x" => match parse_cfg(it) {
            Some(c) => run_e2x(c),
            None => "bad-case".into(),
        },
        _ => "bad-case".into(),
    }
}

// ---------------------------------------------------------------------------------------------
// generation

fn knobs_tok(k: [u64; 9]) -> String {
    k.iter().map(|x| x.to_string()).collect::<Vec<_>>().join(".")
}

fn no_timeout_key(es: Typed) -> Typed {
    es.into_iter().filter(|(_, k, _)| !k.to_ascii_lowercase().starts_with(b"grpc-timeout")).collect()
}

pub fn generate(thorough: bool, rng: &mut Rng, out: &mut Vec<String>) {
    // ---- corpus: one repeated ASCII key, one binary key (length 1 mod 3), a reserved name,
    // every value of every knob on its own, in every mode it applies to
    let md: Typed = vec![
        (false, b"x-a".to_vec(), b"1".to_vec()),
        (true, b"k-bin".to_vec(), vec![0, 1, 2, 255]),
        (false, b"user-agent".to_vec(), b"forged".to_vec()),
        (false, b"x-a".to_vec(), b"2".to_vec()),
    ];
    let other: Typed = vec![(false, b"x-b".to_vec(), b"r".to_vec()), (true, b"k-bin".to_vec(), vec![7])];
    let line = |k: [u64; 9], mode: &str, code: u64| format!("e2x {} {} {} {} {} {} {} {}", knobs_tok(k), mode, code, hex(b"denied"), hex(&[8, 1]), typed_tok(&md), typed_tok(&other), typed_tok(&md));
    let ranges: [u64; 9] = [2, 2, 6, 5, 6, 4, 4, 3, 3];
    for mode in ["ok", "err", "sserr", "umix"] {
        for (i, n) in ranges.iter().enumerate() {
            for v in 0..*n {
                let mut k = [0u64; 9];
                k[i] = v;
                if i == 6 && v == 3 && mode != "err" {
                    continue;
                }
                if i == 7 && !(mode == "sserr" || mode == "umix") {
                    continue;
                }
                out.push(line(k, mode, 7));
            }
        }
    }
    // OK trailers carrying metadata (the stream ends with Err(Status::ok + metadata))
    for k in 0..3u64 {
        out.push(line([0, 0, 0, 0, 0, 0, 0, k, 0], "sserr", 0));
        out.push(line([1, 1, 0, 0, 0, 0, 0, k, 1], "sserr", 0));
        out.push(line([0, 1, 0, 0, 0, 0, 0, k, 2], "sserr", 0));
    }
    for k in 1..3u64 {
        out.push(line([0, 0, 0, 0, 0, 0, 0, k, 0], "umix", 0));
        out.push(line([1, 1, 0, 0, 0, 0, 0, k, 1], "umix", 0));
        out.push(line([1, 0, 0, 0, 0, 0, 0, k, 2], "umix", 0));
    }
    // ---- random: all knobs at once
    let n = if thorough { 40000 } else { 1200 };
    for i in 0..n {
        let mode = *rng.pick(&["ok", "ok", "err", "sserr", "umix"]);
        // the real transport costs a connection per case: a share of the cases only
        // (tx = 2, through tonic-web's two layers, is in-process and cheap: a fifth of the cases)
        let tx = if i % 5 == 1 { 2 } else { (if thorough { rng.chance(1, 8) } else { i % 6 == 0 }) as u64 };
        let mut k = [0u64; 9];
        for (j, r) in ranges.iter().enumerate() {
            k[j] = rng.below(*r);
        }
        k[8] = tx;
        if k[6] == 3 && mode != "err" {
            k[6] = 1;
        }
        if !(mode == "sserr" || mode == "umix") {
            k[7] = 0;
        }
        let code = match mode {
            "err" => rng.range(1, 16),
            "umix" => {
                if k[7] >= 1 && rng.chance(1, 3) {
                    0
                } else {
                    rng.range(1, 16)
                }
            }
            _ => rng.below(17),
        };
        let msg: &str = *rng.pick(&["", "boom", "é %", "a\nb"]);
        let det = if rng.chance(1, 3) { super::gen_bin_value(rng) } else { vec![] };
        let mut req = super::gen_typed(rng, 6);
        let mut resp = super::gen_typed(rng, 5);
        let mut stmd = super::gen_typed(rng, 4);
        if tx == 1 || k[2] == 5 {
            // grpc-timeout is the transport's (C09) / set_timeout's own name
            req = no_timeout_key(req);
            resp = no_timeout_key(resp);
            stmd = no_timeout_key(stmd);
        }
        if tx == 2 {
            // the grpc-web trailers block is an HTTP/1 field block (`name:value\r\n`): optional
            // whitespace after the colon is not part of a value there (RFC 9110 5.5; tonic-web's
            // reader cuts one space, C17's model says so), so a value that BEGINS with a space is
            // not something that format can carry - not asked of it here
            for e in stmd.iter_mut() {
                if !e.0 {
                    while e.2.first() == Some(&b' ') {
                        e.2.remove(0);
                    }
                }
            }
        }
        out.push(format!("e2x {} {} {} {} {} {} {} {}", knobs_tok(k), mode, code, hex(msg.as_bytes()), hex(&det), typed_tok(&req), typed_tok(&resp), typed_tok(&stmd)));
    }
    // ---- a peer that is not tonic
    gen_peer(thorough, rng, out);
    // ---- map-level API
    out.push("mapi 0".to_string());
    out.push(format!("mapi {}", crate::c04::entries_tok(&[(b"x-a".to_vec(), b"1".to_vec()), (b"k-bin".to_vec(), b"AAEC".to_vec()), (b"x-a".to_vec(), b"2".to_vec()), (b"te".to_vec(), b"trailers".to_vec())])));
    let n = if thorough { 20000 } else { 800 };
    for _ in 0..n {
        out.push(format!("mapi {}", crate::c04::entries_tok(&crate::c04::gen_entries(rng, 7))));
    }
}

fn peer_entries(rng: &mut Rng, prefix: &str, max: u64) -> Vec<(Vec<u8>, Vec<u8>)> {
    let n = rng.below(max + 1);
    let mut es: Vec<(Vec<u8>, Vec<u8>)> = Vec::new();
    for _ in 0..n {
        if !es.is_empty() && rng.chance(1, 3) {
            // repeat an earlier name
            let k = es[rng.below(es.len() as u64) as usize].0.clone();
            let v = if k.ends_with(b"-bin") { peer_bin(rng) } else { crate::c04::gen_value(rng) };
            es.push((k, v));
            continue;
        }
        let base = *rng.pick(&["x-a", "foo", "x-trace-id", "k", "x-bin-x", "authorization", "bin"]);
        if rng.chance(1, 2) {
            es.push((format!("{}{}-bin", prefix, base).into_bytes(), peer_bin(rng)));
        } else {
            es.push((format!("{}{}", prefix, base).into_bytes(), crate::c04::gen_value(rng)));
        }
    }
    es
}

/// a binary value as some peer writes it: base64 of random bytes, padded or not
fn peer_bin(rng: &mut Rng) -> Vec<u8> {
    use base64::Engine;
    let v = super::gen_bin_value(rng);
    if rng.chance(1, 2) {
        base64::engine::general_purpose::STANDARD.encode(&v).into_bytes()
    } else {
        base64::engine::general_purpose::STANDARD_NO_PAD.encode(&v).into_bytes()
    }
}

fn gen_peer(thorough: bool, rng: &mut Rng, out: &mut Vec<String>) {
    use crate::c04::entries_tok;
    let ct = (b"content-type".to_vec(), b"application/grpc".to_vec());
    // corpus: padded binary in headers, in OK trailers and in error trailers; a name in both
    let h = vec![ct.clone(), (b"x-a".to_vec(), b"1".to_vec()), (b"k-bin".to_vec(), b"AAEC/w==".to_vec()), (b"x-a".to_vec(), b"2".to_vec())];
    for (code, extra) in [("0", vec![(b"t-bin".to_vec(), b"BA==".to_vec()), (b"t-bin".to_vec(), b"BQY".to_vec()), (b"x-t".to_vec(), b"v".to_vec())]), ("7", vec![(b"t-bin".to_vec(), b"BA==".to_vec()), (b"x-t".to_vec(), b"v".to_vec())]), ("0", vec![(b"x-a".to_vec(), b"3".to_vec())])] {
        let mut t = vec![(b"grpc-status".to_vec(), code.as_bytes().to_vec())];
        t.extend(extra);
        for shape in ["u", "s"] {
            for nmsg in 0..3 {
                out.push(format!("peer cli {} {} {} 1 {}", shape, entries_tok(&h), nmsg, entries_tok(&t)));
            }
        }
    }
    for (m, d) in [(&b"%FF"[..], &b""[..]), (b"ok%20text", b"!!!"), (b"%C3", b"A")] {
        let mut t = vec![(b"grpc-status".to_vec(), b"7".to_vec()), (b"x-t".to_vec(), b"v".to_vec()), (b"grpc-message".to_vec(), m.to_vec()), (b"t-bin".to_vec(), b"BA==".to_vec())];
        if !d.is_empty() {
            t.push((b"grpc-status-details-bin".to_vec(), d.to_vec()));
        }
        for shape in ["u", "s"] {
            for nmsg in 0..2 {
                out.push(format!("peer cli {} {} {} 1 {}", shape, entries_tok(&h), nmsg, entries_tok(&t)));
            }
        }
    }
    let hq = vec![(b"te".to_vec(), b"trailers".to_vec()), ct.clone(), (b"user-agent".to_vec(), b"grpc-go/1.60".to_vec()), (b"x-a".to_vec(), b"1".to_vec()), (b"k-bin".to_vec(), b"AAEC/w==".to_vec()), (b"x-a".to_vec(), b"2".to_vec())];
    for shape in ["u", "s"] {
        out.push(format!("peer srv {} {} 0", shape, entries_tok(&hq)));
        out.push(format!("peer srv {} {} 1 {}", shape, entries_tok(&hq), entries_tok(&[(b"t-bin".to_vec(), b"BA==".to_vec()), (b"x-t".to_vec(), b"v".to_vec())])));
    }
    let n = if thorough { 30000 } else { 1500 };
    for _ in 0..n {
        let shape = *rng.pick(&["u", "s"]);
        if rng.chance(2, 3) {
            let mut h = vec![ct.clone()];
            h.extend(peer_entries(rng, "", 4));
            let nmsg = rng.below(3);
            if rng.chance(1, 12) {
                out.push(format!("peer cli {} {} {} 0", shape, entries_tok(&h), nmsg));
                continue;
            }
            let code = if rng.chance(1, 2) { 0 } else { rng.range(1, 16) };
            let mut t = vec![(b"grpc-status".to_vec(), code.to_string().into_bytes())];
            // trailer names: mostly their own, sometimes shared with the headers
            let prefix = if rng.chance(1, 4) { "" } else { "t-" };
            t.extend(peer_entries(rng, prefix, 3));
            // what other implementations and proxies put next to an error status: a message and details - well formed,
            // or NOT decodable (the status then degrades to UNKNOWN, but the custom entries travelling with it are still
            // the peer's metadata and must reach the caller - seed C08i)
            if code != 0 && rng.chance(1, 2) {
                let m: &[u8] = *rng.pick(&[&b"a%20b"[..], b"plain", b"%FF", b"%C3", b"bad%C3%28", b"%E4%B8%AD", b""]);
                t.push((b"grpc-message".to_vec(), m.to_vec()));
            }
            if code != 0 && rng.chance(1, 3) {
                let d: &[u8] = *rng.pick(&[&b"CgVoZWxsbw"[..], b"AAEC", b"!!!", b"A", b"QQ=="]);
                t.push((b"grpc-status-details-bin".to_vec(), d.to_vec()));
            }
            if rng.chance(1, 2) {
                let n = t.len();
                t.swap(0, n - 1);
            }
            out.push(format!("peer cli {} {} {} 1 {}", shape, entries_tok(&h), nmsg, entries_tok(&t)));
        } else {
            let mut h = vec![(b"te".to_vec(), b"trailers".to_vec()), ct.clone()];
            if rng.chance(1, 2) {
                h.push((b"user-agent".to_vec(), b"grpc-c++/1.62 (linux)".to_vec()));
            }
            h.extend(peer_entries(rng, "", 4));
            if rng.chance(1, 2) {
                out.push(format!("peer srv {} {} 0", shape, entries_tok(&h)));
            } else {
                // request trailers under names of their own (a name shared with the headers is the
                // merge C08-F1 / F3 describe)
                out.push(format!("peer srv {} {} 1 {}", shape, entries_tok(&h), entries_tok(&peer_entries(rng, "t-", 3))));
            }
        }
    }
}
