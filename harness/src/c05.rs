//! C05 — compression is used only as negotiated and configured.
//!
//! Drives the real `tonic::server::Grpc` (all four shapes, both the builder route and the
//! `apply_compression_config` route used by generated servers) and the real
//! `tonic::client::Grpc` (scripted transport) with a raw-bytes codec and the real
//! gzip/deflate/zstd compressors.  Observed: the negotiation headers, the compressed-flag and
//! payload *form* of every frame (judged by decompressing independently with flate2 / zstd), what
//! the handler / caller received, and the status.
//!
//! case lines
//!   srv.<u|ss|cs|bi> <d|c|D|C> <acc calls> <snd calls> E n hv* A n hv* F n (flag pc msg)* H <reply|fail> n dis M n hv* R rmsg
//!   cli.<u|ss|cs|bi|U|SS|CS|BI> <snd calls> <acc calls> UE n hv* UA n hv* Q k reqmsg E n hv* HS <none|code> F n (flag pc msg)* TS <none|code>
//!   pair.<shape> <route> <cli snd> <cli acc> <srv acc> <srv snd> K k H <reply|fail> n dis Q reqmsg R rmsg
//!     (the client's transport *is* a real `server::Grpc`; both directions are recorded on the way)
//!   clih.<shape> <http status> <rest of a cli case>   the scripted response has that HTTP status
//!   x.<knobs> <any of the above>   dimensions that must be invisible, see c05_x.rs
//! calls: string over g,d,z (enable gzip/deflate/zstd) and p (pop; route c only), `-` = none.
use crate::common::*;
#[path = "c05_x.rs"]
mod x;
use bytes::{Buf, BufMut, Bytes};
use http_body_util::BodyExt;
use std::future::Future;
use std::io::Read;
use std::pin::Pin;
use std::sync::{Arc, Mutex};
use std::task::{Context, Poll};
use tonic::codec::{Codec, CompressionEncoding, DecodeBuf, Decoder, EnabledCompressionEncodings, EncodeBuf, Encoder};
use tonic::{Request, Response, Status, Streaming};

// ---------------------------------------------------------------- codec

#[derive(Clone, Default)]
struct RawCodec;
#[derive(Clone, Default)]
struct RawEnc;
#[derive(Clone, Default)]
struct RawDec;

impl Encoder for RawEnc {
    type Item = Vec<u8>;
    type Error = Status;
    fn encode(&mut self, item: Vec<u8>, dst: &mut EncodeBuf<'_>) -> Result<(), Status> {
        dst.put_slice(&item);
        Ok(())
    }
    fn buffer_settings(&self) -> tonic::codec::BufferSettings {
        x::buffer_settings()
    }
}
impl Decoder for RawDec {
    type Item = Vec<u8>;
    type Error = Status;
    fn decode(&mut self, src: &mut DecodeBuf<'_>) -> Result<Option<Vec<u8>>, Status> {
        let n = src.remaining();
        Ok(Some(src.copy_to_bytes(n).to_vec()))
    }
    fn buffer_settings(&self) -> tonic::codec::BufferSettings {
        x::buffer_settings()
    }
}
impl Codec for RawCodec {
    type Encode = Vec<u8>;
    type Decode = Vec<u8>;
    type Encoder = RawEnc;
    type Decoder = RawDec;
    fn encoder(&mut self) -> RawEnc {
        RawEnc
    }
    fn decoder(&mut self) -> RawDec {
        RawDec
    }
}

// ---------------------------------------------------------------- independent (de)compression

fn enc_of(c: char) -> Option<CompressionEncoding> {
    match c {
        'g' => Some(CompressionEncoding::Gzip),
        'd' => Some(CompressionEncoding::Deflate),
        'z' => Some(CompressionEncoding::Zstd),
        _ => None,
    }
}

fn compress_with(pc: char, msg: &[u8]) -> Vec<u8> {
    let mut out = Vec::new();
    match pc {
        'g' => {
            flate2::read::GzEncoder::new(msg, flate2::Compression::new(6)).read_to_end(&mut out).unwrap();
        }
        'd' => {
            flate2::read::ZlibEncoder::new(msg, flate2::Compression::new(6)).read_to_end(&mut out).unwrap();
        }
        'z' => {
            out = zstd::encode_all(msg, 3).unwrap();
        }
        _ => out.extend_from_slice(msg),
    }
    out
}

/// Form of `payload` relative to the reference message: r(aw), g/d/z (a valid compression of the
/// reference under that codec, magic number included), x (anything else).
fn classify(payload: &[u8], reference: &[u8]) -> char {
    if payload == reference {
        return 'r';
    }
    if payload.len() >= 2 && payload[0] == 0x1f && payload[1] == 0x8b {
        let mut out = Vec::new();
        if flate2::read::GzDecoder::new(payload).read_to_end(&mut out).is_ok() && out == reference {
            return 'g';
        }
    }
    if payload.len() >= 2 && payload[0] & 0x0f == 8 && (u16::from(payload[0]) * 256 + u16::from(payload[1])) % 31 == 0 {
        let mut out = Vec::new();
        if flate2::read::ZlibDecoder::new(payload).read_to_end(&mut out).is_ok() && out == reference {
            return 'd';
        }
    }
    if payload.len() >= 4 && payload[..4] == [0x28, 0xb5, 0x2f, 0xfd] {
        if let Ok(out) = zstd::decode_all(payload) {
            if out == reference {
                return 'z';
            }
        }
    }
    'x'
}

fn wire_frame(flag: u8, payload: &[u8]) -> Vec<u8> {
    let mut v = Vec::with_capacity(5 + payload.len());
    v.push(flag);
    v.put_u32(payload.len() as u32);
    v.extend_from_slice(payload);
    v
}

/// Split a body into gRPC frames; `None` if it is not a whole number of frames.
fn parse_frames(mut b: &[u8]) -> Option<Vec<(u8, Vec<u8>)>> {
    let mut out = Vec::new();
    while !b.is_empty() {
        if b.len() < 5 {
            return None;
        }
        let flag = b[0];
        let len = u32::from_be_bytes([b[1], b[2], b[3], b[4]]) as usize;
        if b.len() < 5 + len {
            return None;
        }
        out.push((flag, b[5..5 + len].to_vec()));
        b = &b[5 + len..];
    }
    Some(out)
}

fn err_class(st: &Status) -> &'static str {
    let m = st.message();
    if st.code() == tonic::Code::Ok {
        "-"
    } else if m.starts_with("protocol error: received message with compressed-flag but no grpc-encoding") {
        "flag-no-enc"
    } else if m.starts_with("protocol error: received message with invalid compression flag") {
        "bad-flag"
    } else if m == "Missing request message." || m == "Missing response message." {
        "missing"
    } else if m.starts_with("Error decompressing") {
        "decompress"
    } else if m.starts_with("Content is compressed with") {
        "unsupported"
    } else if m == "h" {
        "handler"
    } else if m == "p" {
        "peer"
    } else {
        "other"
    }
}

fn item_err(st: &Status) -> String {
    format!("e{}:{}", st.code() as i32, err_class(st))
}

fn header_vals(h: &http::HeaderMap, name: &str) -> String {
    let vs: Vec<String> = h.get_all(name).iter().map(|v| hex(v.as_bytes())).collect();
    if vs.is_empty() {
        "0".into()
    } else {
        format!("{} {}", vs.len(), vs.join(" "))
    }
}

thread_local! {
    static RT: tokio::runtime::Runtime = tokio::runtime::Builder::new_current_thread().enable_all().build().unwrap();
}

// ---------------------------------------------------------------- case parsing

struct Cur<'a> {
    t: Vec<&'a str>,
    i: usize,
}
impl<'a> Cur<'a> {
    fn next(&mut self) -> Option<&'a str> {
        let r = self.t.get(self.i).copied();
        self.i += 1;
        r
    }
    fn lit(&mut self, s: &str) -> Option<()> {
        if self.next()? == s {
            Some(())
        } else {
            None
        }
    }
    fn num(&mut self) -> Option<usize> {
        self.next()?.parse().ok()
    }
    fn hexs(&mut self, marker: &str) -> Option<Vec<Vec<u8>>> {
        self.lit(marker)?;
        let n = self.num()?;
        (0..n).map(|_| unhex(self.next()?)).collect()
    }
    fn frames(&mut self) -> Option<Vec<(u8, char, Vec<u8>)>> {
        self.lit("F")?;
        let n = self.num()?;
        let mut v = Vec::new();
        for _ in 0..n {
            let flag: u8 = self.next()?.parse().ok()?;
            let pc = self.next()?.chars().next()?;
            let msg = unhex(self.next()?)?;
            v.push((flag, pc, msg));
        }
        Some(v)
    }
    fn optcode(&mut self, marker: &str) -> Option<Option<i32>> {
        self.lit(marker)?;
        let t = self.next()?;
        if t == "none" {
            Some(None)
        } else {
            Some(Some(t.parse().ok()?))
        }
    }
}

fn enabled_from_calls(calls: &str) -> EnabledCompressionEncodings {
    let mut e = EnabledCompressionEncodings::default();
    for c in calls.chars() {
        match c {
            'p' => {
                e.pop();
            }
            '-' => {}
            c => e.enable(enc_of(c).expect("call letter")),
        }
    }
    e
}

// ---------------------------------------------------------------- server side

#[derive(Default)]
struct Rec {
    called: bool,
    saw: Vec<String>,
}

#[derive(Clone)]
struct Script {
    rec: Arc<Mutex<Rec>>,
    reqmsgs: Arc<Vec<Vec<u8>>>,
    reply: bool,
    n: usize,
    disable: bool,
    md: Arc<Vec<Vec<u8>>>,
    rmsg: Arc<Vec<u8>>,
}

impl Script {
    fn saw_msg(&self, idx: usize, got: &[u8]) {
        let reference: &[u8] = self.reqmsgs.get(idx).map(|v| v.as_slice()).unwrap_or(&[]);
        self.rec.lock().unwrap().saw.push(format!("ok:{}", classify(got, reference)));
    }
    fn finish<T>(&self, body: T) -> Result<Response<T>, Status> {
        if !self.reply {
            return Err(Status::new(tonic::Code::from(self.n as i32), "h"));
        }
        let mut r = Response::new(body);
        for v in self.md.iter() {
            let mv = tonic::metadata::MetadataValue::try_from(v.as_slice()).map_err(|_| Status::new(tonic::Code::Unknown, "bad-md"))?;
            r.metadata_mut().append("grpc-encoding", mv);
        }
        if self.disable {
            r.disable_compression();
        }
        Ok(r)
    }
}

type BoxFut<T> = Pin<Box<dyn Future<Output = T> + Send>>;
type MsgStream = x::Items<Result<Vec<u8>, Status>>;

struct UnarySvc(Script);
impl tower_service::Service<Request<Vec<u8>>> for UnarySvc {
    type Response = Response<Vec<u8>>;
    type Error = Status;
    type Future = BoxFut<Result<Response<Vec<u8>>, Status>>;
    fn poll_ready(&mut self, _: &mut Context<'_>) -> Poll<Result<(), Status>> {
        Poll::Ready(Ok(()))
    }
    fn call(&mut self, req: Request<Vec<u8>>) -> Self::Future {
        let s = self.0.clone();
        Box::pin(async move {
            s.rec.lock().unwrap().called = true;
            s.saw_msg(0, req.get_ref());
            s.finish((*s.rmsg).clone())
        })
    }
}

struct SStreamSvc(Script);
impl tower_service::Service<Request<Vec<u8>>> for SStreamSvc {
    type Response = Response<MsgStream>;
    type Error = Status;
    type Future = BoxFut<Result<Response<MsgStream>, Status>>;
    fn poll_ready(&mut self, _: &mut Context<'_>) -> Poll<Result<(), Status>> {
        Poll::Ready(Ok(()))
    }
    fn call(&mut self, req: Request<Vec<u8>>) -> Self::Future {
        let s = self.0.clone();
        Box::pin(async move {
            s.rec.lock().unwrap().called = true;
            s.saw_msg(0, req.get_ref());
            let items: Vec<Result<Vec<u8>, Status>> = (0..s.n).map(|_| Ok((*s.rmsg).clone())).collect();
            s.finish(x::items(items))
        })
    }
}

async fn read_all(s: &Script, mut st: Streaming<Vec<u8>>) -> Result<(), Status> {
    let mut idx = 0;
    loop {
        match st.message().await {
            Ok(Some(m)) => {
                s.saw_msg(idx, &m);
                idx += 1;
            }
            Ok(None) => return Ok(()),
            Err(e) => {
                s.rec.lock().unwrap().saw.push(item_err(&e));
                return Err(e);
            }
        }
    }
}

struct CStreamSvc(Script);
impl tower_service::Service<Request<Streaming<Vec<u8>>>> for CStreamSvc {
    type Response = Response<Vec<u8>>;
    type Error = Status;
    type Future = BoxFut<Result<Response<Vec<u8>>, Status>>;
    fn poll_ready(&mut self, _: &mut Context<'_>) -> Poll<Result<(), Status>> {
        Poll::Ready(Ok(()))
    }
    fn call(&mut self, req: Request<Streaming<Vec<u8>>>) -> Self::Future {
        let s = self.0.clone();
        Box::pin(async move {
            s.rec.lock().unwrap().called = true;
            read_all(&s, req.into_inner()).await?;
            s.finish((*s.rmsg).clone())
        })
    }
}

struct BidiSvc(Script);
impl tower_service::Service<Request<Streaming<Vec<u8>>>> for BidiSvc {
    type Response = Response<MsgStream>;
    type Error = Status;
    type Future = BoxFut<Result<Response<MsgStream>, Status>>;
    fn poll_ready(&mut self, _: &mut Context<'_>) -> Poll<Result<(), Status>> {
        Poll::Ready(Ok(()))
    }
    fn call(&mut self, req: Request<Streaming<Vec<u8>>>) -> Self::Future {
        let s = self.0.clone();
        Box::pin(async move {
            s.rec.lock().unwrap().called = true;
            read_all(&s, req.into_inner()).await?;
            let items: Vec<Result<Vec<u8>, Status>> = (0..s.n).map(|_| Ok((*s.rmsg).clone())).collect();
            s.finish(x::items(items))
        })
    }
}

fn enc_letters(h: &http::HeaderMap) -> String {
    let v: String = h
        .get_all("grpc-encoding")
        .iter()
        .map(|v| match v.as_bytes() {
            b"gzip" => 'g',
            b"deflate" => 'd',
            b"zstd" => 'z',
            _ => '?',
        })
        .collect();
    if v.is_empty() {
        "-".into()
    } else {
        v
    }
}

fn build_server(route: &str, acc: &str, snd: &str) -> Option<tonic::server::Grpc<RawCodec>> {
    let mut grpc = x::server_limits(tonic::server::Grpc::new(RawCodec), true);
    match route.to_ascii_lowercase().as_str() {
        "d" => {
            for ch in acc.chars().filter(|c| *c != '-') {
                grpc = grpc.accept_compressed(enc_of(ch)?);
            }
            for ch in snd.chars().filter(|c| *c != '-') {
                grpc = grpc.send_compressed(enc_of(ch)?);
            }
        }
        "c" => {
            grpc = grpc.apply_compression_config(enabled_from_calls(acc), enabled_from_calls(snd));
        }
        _ => return None,
    }
    Some(x::server_limits(grpc, false))
}

/// Run one call through the real `server::Grpc` and read its response to the end.
async fn serve_shape<B>(
    grpc: &mut tonic::server::Grpc<RawCodec>,
    shape: &str,
    script: Script,
    req: http::Request<B>,
) -> (http::response::Parts, Vec<u8>, Option<http::HeaderMap>)
where
    B: http_body::Body + Send + 'static,
    B::Error: Into<Box<dyn std::error::Error + Send + Sync>> + Send,
{
    let resp = match shape {
        "u" => grpc.unary(UnarySvc(script), req).await,
        "ss" => grpc.server_streaming(SStreamSvc(script), req).await,
        "cs" => grpc.client_streaming(CStreamSvc(script), req).await,
        _ => grpc.streaming(BidiSvc(script), req).await,
    };
    let (parts, mut body) = resp.into_parts();
    let mut data = Vec::new();
    let mut trailers: Option<http::HeaderMap> = None;
    let mut after_trailers = false;
    loop {
        // the body's optional hints must be honest: nothing follows `is_end_stream() == true`,
        // no DATA frame exceeds the announced upper bound
        let ended = http_body::Body::is_end_stream(&body);
        let upper = http_body::Body::size_hint(&body).upper();
        let Some(fr) = body.frame().await else { break };
        if ended {
            after_trailers = true;
        }
        match fr {
            Ok(f) => {
                if f.is_data() {
                    if trailers.is_some() {
                        after_trailers = true;
                    }
                    let d = f.into_data().unwrap();
                    if upper.is_some_and(|u| (d.len() as u64) > u) {
                        after_trailers = true;
                    }
                    data.extend_from_slice(&d);
                } else if let Ok(t) = f.into_trailers() {
                    trailers = Some(t);
                }
            }
            Err(_) => break,
        }
    }
    if after_trailers {
        data.clear();
        data.push(0xff);
    }
    (parts, data, trailers)
}

/// knob `web`: the same call through `tonic_web::GrpcWebLayer`; the grpc-web response (DATA frames, then the
/// trailers as a frame with the 0x80 flag) is taken apart again so that the observation reads as in the plain case
async fn serve_web<B>(
    grpc: tonic::server::Grpc<RawCodec>,
    shape: String,
    script: Script,
    req: http::Request<B>,
) -> (http::response::Parts, Vec<u8>, Option<http::HeaderMap>)
where
    B: http_body::Body<Data = Bytes> + Send + 'static,
    B::Error: Into<Box<dyn std::error::Error + Send + Sync>> + std::fmt::Display + Send,
{
    use tower::{Layer, Service};
    let cell = Arc::new(tokio::sync::Mutex::new(grpc));
    let inner = tower::service_fn(move |req: http::Request<tonic::body::Body>| {
        let cell = cell.clone();
        let shape = shape.clone();
        let script = script.clone();
        async move {
            let mut grpc = cell.lock().await;
            let resp = match shape.as_str() {
                "u" => grpc.unary(UnarySvc(script), req).await,
                "ss" => grpc.server_streaming(SStreamSvc(script), req).await,
                "cs" => grpc.client_streaming(CStreamSvc(script), req).await,
                _ => grpc.streaming(BidiSvc(script), req).await,
            };
            Ok::<_, std::convert::Infallible>(resp)
        }
    });
    let mut web = tonic_web::GrpcWebLayer::new().layer(inner);
    let resp = match web.call(req).await {
        Ok(r) => r,
        Err(e) => match e {},
    };
    let (parts, mut body) = resp.into_parts();
    let mut raw = Vec::new();
    let mut trailers: Option<http::HeaderMap> = None;
    while let Some(fr) = body.frame().await {
        match fr {
            Ok(f) => {
                if f.is_data() {
                    raw.extend_from_slice(&f.into_data().unwrap());
                } else if let Ok(t) = f.into_trailers() {
                    trailers = Some(t);
                }
            }
            Err(_) => break,
        }
    }
    // split off the trailers frame(s)
    let mut data = Vec::new();
    let mut b = &raw[..];
    while b.len() >= 5 {
        let len = u32::from_be_bytes([b[1], b[2], b[3], b[4]]) as usize;
        if b.len() < 5 + len {
            break;
        }
        if b[0] & 0x80 != 0 {
            let mut t = trailers.take().unwrap_or_default();
            for line in b[5..5 + len].split(|c| *c == b'\n') {
                let line = line.strip_suffix(b"\r").unwrap_or(line);
                if let Some(i) = line.iter().position(|c| *c == b':') {
                    if let (Ok(n), Ok(v)) = (http::HeaderName::from_bytes(&line[..i]), http::HeaderValue::from_bytes(line[i + 1..].strip_prefix(b" ").unwrap_or(&line[i + 1..]))) {
                        t.append(n, v);
                    }
                }
            }
            trailers = Some(t);
        } else {
            data.extend_from_slice(&b[..5 + len]);
        }
        b = &b[5 + len..];
    }
    data.extend_from_slice(b);
    (parts, data, trailers)
}

fn srv_tokens(rec: &Rec, headers: &http::HeaderMap, data: &[u8], trailers: Option<&http::HeaderMap>, rmsg: &[u8]) -> String {
    let (wh, st) = if let Some(st) = Status::from_header_map(headers) {
        ("hdr", Some(st))
    } else if let Some(st) = trailers.and_then(Status::from_header_map) {
        ("trl", Some(st))
    } else {
        ("absent", None)
    };
    let st_tok = match &st {
        Some(s) => format!("{} {} {}", wh, s.code() as i32, err_class(s)),
        None => "absent 0 -".to_string(),
    };
    let fr_tok = match parse_frames(data) {
        Some(fs) => {
            let v: Vec<String> = fs.iter().map(|(f, p)| format!("{}:{}", f, classify(p, rmsg))).collect();
            if v.is_empty() {
                "0".to_string()
            } else {
                format!("{} {}", v.len(), v.join(" "))
            }
        }
        None => "malformed".into(),
    };
    let saw = if rec.saw.is_empty() { "0".to_string() } else { format!("{} {}", rec.saw.len(), rec.saw.join(" ")) };
    let summary = match &st {
        Some(s) => format!("s{}.{}.{}", s.code() as i32, err_class(s), enc_letters(headers)),
        None => format!("s-.-.{}", enc_letters(headers)),
    };
    format!(
        "{} called {} saw {} enc {} acc {} st {} fr {}",
        summary,
        rec.called as u8,
        saw,
        header_vals(headers, "grpc-encoding"),
        header_vals(headers, "grpc-accept-encoding"),
        st_tok,
        fr_tok
    )
}

fn run_srv(shape: &str, c: &mut Cur<'_>) -> Option<String> {
    let route = c.next()?;
    let acc = c.next()?;
    let snd = c.next()?;
    let enc_vals = c.hexs("E")?;
    let acc_vals = c.hexs("A")?;
    let frames = c.frames()?;
    c.lit("H")?;
    let reply = match c.next()? {
        "reply" => true,
        "fail" => false,
        _ => return None,
    };
    let n = c.num()?;
    let disable = c.num()? != 0;
    let md = c.hexs("M")?;
    c.lit("R")?;
    let rmsg = unhex(c.next()?)?;

    let mut grpc = build_server(route, acc, snd)?;

    let mut body = Vec::new();
    for (flag, pc, msg) in &frames {
        body.extend_from_slice(&wire_frame(*flag, &compress_with(*pc, msg)));
    }
    let kn = x::knobs();
    let mut req = http::Request::builder()
        .method("POST")
        .uri("http://h/svc/M")
        .version(if kn.xh & 16 != 0 { http::Version::HTTP_11 } else { http::Version::HTTP_2 })
        .header("content-type", if kn.xh & 8 != 0 { "application/grpc+proto" } else { "application/grpc" });
    if kn.xh & 4 == 0 {
        req = req.header("te", "trailers");
    }
    if kn.xh & 1 != 0 {
        req = req.header("accept-encoding", "gzip, deflate, zstd");
    }
    if kn.xh & 2 != 0 {
        req = req.header("content-encoding", "gzip");
    }
    for v in &enc_vals {
        match http::HeaderValue::from_bytes(v) {
            Ok(hv) => req = req.header("grpc-encoding", hv),
            Err(_) => return Some("not-a-header-value".into()),
        }
    }
    for v in &acc_vals {
        match http::HeaderValue::from_bytes(v) {
            Ok(hv) => req = req.header("grpc-accept-encoding", hv),
            Err(_) => return Some("not-a-header-value".into()),
        }
    }
    if kn.web != 0 {
        // the grpc-web front: what a browser client sends (no `te`, grpc-web content-type, HTTP/1.1 or 2)
        let h = req.headers_mut()?;
        h.remove("te");
        h.insert("content-type", http::HeaderValue::from_static(if kn.xh & 8 != 0 { "application/grpc-web+proto" } else { "application/grpc-web" }));
        h.insert("accept", http::HeaderValue::from_static("application/grpc-web"));
        req = req.version(if kn.web == 1 { http::Version::HTTP_11 } else { http::Version::HTTP_2 });
    }
    type ReqBody = http_body_util::Either<http_body_util::Full<Bytes>, x::ChunkBody>;
    let req: http::Request<ReqBody> = if kn.cut == 0 && kn.xh & 32 == 0 {
        req.body(http_body_util::Either::Left(http_body_util::Full::new(Bytes::from(body)))).ok()?
    } else {
        let trailers = if kn.xh & 32 != 0 {
            let mut t = http::HeaderMap::new();
            t.insert("grpc-encoding", http::HeaderValue::from_static("gzip"));
            t.insert("grpc-accept-encoding", http::HeaderValue::from_static("gzip,deflate,zstd"));
            Some(t)
        } else {
            None
        };
        req.body(http_body_util::Either::Right(x::ChunkBody { chunks: x::split(kn.cut, &body).into(), trailers })).ok()?
    };

    let rec = Arc::new(Mutex::new(Rec::default()));
    let script = Script {
        rec: rec.clone(),
        reqmsgs: Arc::new(frames.iter().map(|f| f.2.clone()).collect()),
        reply,
        n,
        disable,
        md: Arc::new(md),
        rmsg: Arc::new(rmsg.clone()),
    };

    let reused = route.chars().all(|c| c.is_ascii_uppercase());
    let (parts, data, trailers) = RT.with(|rt| {
        rt.block_on(async move {
            if reused {
                // the same `Grpc` value has already served another call (compressed request,
                // every encoding offered): nothing of it may leak into this one
                let prime = Script {
                    rec: Arc::new(Mutex::new(Rec::default())),
                    reqmsgs: Arc::new(vec![b"prime".to_vec()]),
                    reply: true,
                    n: 1,
                    disable: false,
                    md: Arc::new(vec![]),
                    rmsg: Arc::new(b"primed primed primed".to_vec()),
                };
                let preq = http::Request::builder()
                    .method("POST")
                    .uri("http://h/svc/M")
                    .version(http::Version::HTTP_2)
                    .header("content-type", "application/grpc")
                    .header("grpc-encoding", "gzip")
                    .header("grpc-accept-encoding", "zstd,deflate,gzip")
                    .body(http_body_util::Full::new(Bytes::from(wire_frame(1, &compress_with('g', b"prime")))))
                    .unwrap();
                let (_, mut b) = grpc.unary(UnarySvc(prime), preq).await.into_parts();
                while let Some(fr) = b.frame().await {
                    if fr.is_err() {
                        break;
                    }
                }
            }
            if kn.wr != 0 {
                // server history: the same `Grpc` value first serves a call that is refused /
                // offers nothing / fails in the handler
                let prime = Script {
                    rec: Arc::new(Mutex::new(Rec::default())),
                    reqmsgs: Arc::new(vec![b"prime".to_vec()]),
                    reply: kn.wr != 3,
                    n: 5,
                    disable: false,
                    md: Arc::new(vec![]),
                    rmsg: Arc::new(b"primed primed primed".to_vec()),
                };
                let mut preq = http::Request::builder().method("POST").uri("http://h/svc/M").version(http::Version::HTTP_2).header("content-type", "application/grpc");
                if kn.wr == 1 {
                    preq = preq.header("grpc-encoding", "br");
                }
                let preq = preq.body(http_body_util::Full::new(Bytes::from(wire_frame(0, b"prime")))).unwrap();
                let (_, mut b) = grpc.unary(UnarySvc(prime), preq).await.into_parts();
                while let Some(fr) = b.frame().await {
                    if fr.is_err() {
                        break;
                    }
                }
            }
            if kn.web != 0 {
                return serve_web(grpc, shape.to_string(), script, req).await;
            }
            serve_shape(&mut grpc, shape, script, req).await
        })
    });

    let rec = rec.lock().unwrap();
    Some(srv_tokens(&rec, &parts.headers, &data, trailers.as_ref(), &rmsg))
}

// ---------------------------------------------------------------- client side

#[derive(Default)]
struct Captured {
    headers: http::HeaderMap,
    body: Vec<u8>,
}

type RespBody = http_body_util::StreamBody<tokio_stream::Iter<std::vec::IntoIter<Result<http_body::Frame<Bytes>, Status>>>>;

#[derive(Clone)]
struct Transport {
    cap: Arc<Mutex<Captured>>,
    enc_vals: Arc<Vec<Vec<u8>>>,
    hdr_status: Option<i32>,
    body: Arc<Vec<u8>>,
    trl_status: Option<i32>,
    /// non-zero: the next call is answered with the peer-feedback profile of that number (knob `wr`)
    warm: Arc<Mutex<u32>>,
}

/// the peer's answer to a history call (knob `wr`): what it says about its own abilities must
/// not change what the client sends or advertises afterwards
fn feedback_response(profile: u32) -> http::Response<RespBody> {
    let mut frames: Vec<Result<http_body::Frame<Bytes>, Status>> = Vec::new();
    let mut resp = http::Response::builder().version(http::Version::HTTP_2);
    match profile {
        1 => {
            resp = resp.status(200).header("content-type", "application/grpc").header("grpc-status", "12").header("grpc-message", "p").header("grpc-accept-encoding", "identity");
        }
        2 | 3 => {
            resp = resp.status(200).header("content-type", "application/grpc");
            if profile == 2 {
                resp = resp.header("grpc-accept-encoding", "identity");
                frames.push(Ok(http_body::Frame::data(Bytes::from(wire_frame(0, b"\0fb")))));
            } else {
                resp = resp.header("grpc-accept-encoding", "gzip,deflate,zstd").header("grpc-encoding", "zstd");
                frames.push(Ok(http_body::Frame::data(Bytes::from(wire_frame(1, &compress_with('z', b"\0fb"))))));
            }
            let mut h = http::HeaderMap::new();
            h.insert("grpc-status", http::HeaderValue::from_static("0"));
            frames.push(Ok(http_body::Frame::trailers(h)));
        }
        _ => {
            resp = resp.status(415).header("content-type", "text/plain");
        }
    }
    resp.body(http_body_util::StreamBody::new(tokio_stream::iter(frames))).unwrap()
}

impl tower_service::Service<http::Request<tonic::body::Body>> for Transport {
    type Response = http::Response<RespBody>;
    type Error = Status;
    type Future = BoxFut<Result<http::Response<RespBody>, Status>>;
    fn poll_ready(&mut self, _: &mut Context<'_>) -> Poll<Result<(), Status>> {
        Poll::Ready(Ok(()))
    }
    fn call(&mut self, req: http::Request<tonic::body::Body>) -> Self::Future {
        let t = self.clone();
        Box::pin(async move {
            let (parts, mut body) = req.into_parts();
            let mut data = Vec::new();
            while let Some(fr) = body.frame().await {
                if let Ok(f) = fr {
                    if let Ok(d) = f.into_data() {
                        data.extend_from_slice(&d);
                    }
                } else {
                    break;
                }
            }
            {
                let mut c = t.cap.lock().unwrap();
                c.headers = parts.headers;
                c.body = data;
            }
            let profile = std::mem::take(&mut *t.warm.lock().unwrap());
            if profile != 0 {
                return Ok(feedback_response(profile));
            }
            let kn = x::knobs();
            let mut frames: Vec<Result<http_body::Frame<Bytes>, Status>> = Vec::new();
            if kn.cut != 0 {
                for c in x::split(kn.cut, &t.body) {
                    frames.push(Ok(http_body::Frame::data(c)));
                }
            } else if !t.body.is_empty() {
                frames.push(Ok(http_body::Frame::data(Bytes::from((*t.body).clone()))));
            }
            if let Some(code) = t.trl_status {
                let mut h = http::HeaderMap::new();
                h.insert("grpc-status", http::HeaderValue::from_str(&code.to_string()).unwrap());
                if code != 0 {
                    h.insert("grpc-message", http::HeaderValue::from_static("p"));
                }
                if kn.xh & 32 != 0 {
                    h.insert("grpc-encoding", http::HeaderValue::from_static("zstd"));
                }
                frames.push(Ok(http_body::Frame::trailers(h)));
            }
            let mut resp = http::Response::builder()
                .status(x::http_status())
                .version(http::Version::HTTP_2)
                .header("content-type", if kn.xh & 8 != 0 { "application/grpc+proto" } else { "application/grpc" });
            if kn.xh & 1 != 0 {
                resp = resp.header("accept-encoding", "gzip, deflate, zstd");
            }
            if kn.xh & 2 != 0 {
                resp = resp.header("content-encoding", "gzip");
            }
            for v in t.enc_vals.iter() {
                resp = resp.header("grpc-encoding", http::HeaderValue::from_bytes(v).unwrap());
            }
            if let Some(code) = t.hdr_status {
                resp = resp.header("grpc-status", code.to_string());
                if code != 0 {
                    resp = resp.header("grpc-message", "p");
                }
            }
            Ok(resp.body(http_body_util::StreamBody::new(tokio_stream::iter(frames))).unwrap())
        })
    }
}

type BoxErr = Box<dyn std::error::Error + Send + Sync>;

/// Make one call through the real `client::Grpc` and report the caller-visible items and the
/// `grpc-accept-encoding` values found in an error's metadata. `None` = the caller's metadata
/// could not be built.
fn drive_client<T>(
    grpc: tonic::client::Grpc<T>,
    shape: &str,
    k: usize,
    reqmsg: &[u8],
    umd_enc: &[Vec<u8>],
    umd_acc: &[Vec<u8>],
    refs: &[Vec<u8>],
) -> Option<(Vec<String>, Vec<String>)>
where
    T: tonic::client::GrpcService<tonic::body::Body> + Clone,
    T::Error: Into<BoxErr>,
    T::ResponseBody: http_body::Body + Send + 'static,
    <T::ResponseBody as http_body::Body>::Error: Into<BoxErr>,
{
    fn with_md<M>(mut r: Request<M>, e: &[Vec<u8>], a: &[Vec<u8>]) -> Option<Request<M>> {
        for v in e {
            r.metadata_mut().append("grpc-encoding", tonic::metadata::MetadataValue::try_from(v.as_slice()).ok()?);
        }
        for v in a {
            r.metadata_mut().append("grpc-accept-encoding", tonic::metadata::MetadataValue::try_from(v.as_slice()).ok()?);
        }
        Some(r)
    }
    // upper-case shape: the call is made on a clone of the configured client
    let cloned = shape.chars().all(|c| c.is_ascii_uppercase());
    let shape_lc = shape.to_ascii_lowercase();
    let shape = shape_lc.as_str();
    let mut grpc = if cloned { grpc.clone() } else { grpc };
    let path = http::uri::PathAndQuery::from_static("/svc/M");
    let item_ok = |idx: usize, got: &[u8]| -> String {
        let reference: &[u8] = refs.get(idx).map(|v| v.as_slice()).unwrap_or(&[]);
        format!("ok:{}", classify(got, reference))
    };
    let eacc = |st: &Status| -> Vec<String> { st.metadata().get_all("grpc-accept-encoding").iter().map(|v| hex(v.as_encoded_bytes())).collect() };

    RT.with(|rt| {
        rt.block_on(async {
            let mut items: Vec<String> = Vec::new();
            let mut errs: Vec<String> = Vec::new();
            if grpc.ready().await.is_err() {
                return None;
            }
            async fn drain(
                r: Result<Response<Streaming<Vec<u8>>>, Status>,
                items: &mut Vec<String>,
                errs: &mut Vec<String>,
                item_ok: &dyn Fn(usize, &[u8]) -> String,
                eacc: &dyn Fn(&Status) -> Vec<String>,
            ) {
                match r {
                    Err(e) => {
                        items.push(item_err(&e));
                        errs.extend(eacc(&e));
                    }
                    Ok(resp) => {
                        let mut st = resp.into_inner();
                        let mut idx = 0;
                        loop {
                            match st.message().await {
                                Ok(Some(m)) => {
                                    items.push(item_ok(idx, &m));
                                    idx += 1;
                                }
                                Ok(None) => break,
                                Err(e) => {
                                    items.push(item_err(&e));
                                    errs.extend(eacc(&e));
                                    break;
                                }
                            }
                        }
                    }
                }
            }
            match shape {
                "u" => {
                    let r = with_md(Request::new(reqmsg.to_vec()), umd_enc, umd_acc)?;
                    match grpc.unary(r, path, RawCodec).await {
                        Ok(resp) => items.push(item_ok(0, resp.get_ref())),
                        Err(e) => {
                            items.push(item_err(&e));
                            errs.extend(eacc(&e));
                        }
                    }
                }
                "cs" => {
                    let msgs: Vec<Vec<u8>> = (0..k).map(|_| reqmsg.to_vec()).collect();
                    let r = with_md(Request::new(x::items(msgs)), umd_enc, umd_acc)?;
                    match grpc.client_streaming(r, path, RawCodec).await {
                        Ok(resp) => items.push(item_ok(0, resp.get_ref())),
                        Err(e) => {
                            items.push(item_err(&e));
                            errs.extend(eacc(&e));
                        }
                    }
                }
                "ss" => {
                    let r = with_md(Request::new(reqmsg.to_vec()), umd_enc, umd_acc)?;
                    let res = grpc.server_streaming(r, path, RawCodec).await;
                    drain(res, &mut items, &mut errs, &item_ok, &eacc).await;
                }
                _ => {
                    let msgs: Vec<Vec<u8>> = (0..k).map(|_| reqmsg.to_vec()).collect();
                    let r = with_md(Request::new(x::items(msgs)), umd_enc, umd_acc)?;
                    let res = grpc.streaming(r, path, RawCodec).await;
                    drain(res, &mut items, &mut errs, &item_ok, &eacc).await;
                }
            }
            Some((items, errs))
        })
    })
}

fn cli_tokens(req_headers: &http::HeaderMap, req_body: &[u8], reqmsg: &[u8], items: &[String], errs: &[String]) -> String {
    let fr_tok = match parse_frames(req_body) {
        Some(fs) => {
            let v: Vec<String> = fs.iter().map(|(f, p)| format!("{}:{}", f, classify(p, reqmsg))).collect();
            if v.is_empty() {
                "0".to_string()
            } else {
                format!("{} {}", v.len(), v.join(" "))
            }
        }
        None => "malformed".into(),
    };
    let list = |v: &[String]| if v.is_empty() { "0".to_string() } else { format!("{} {}", v.len(), v.join(" ")) };
    let outcome = match items.last() {
        None => "none".to_string(),
        Some(l) if l.starts_with("ok") => "ok".to_string(),
        Some(l) => l.clone(),
    };
    format!(
        "c{}.{} enc {} acc {} fr {} res {} eacc {}",
        outcome,
        enc_letters(req_headers),
        header_vals(req_headers, "grpc-encoding"),
        header_vals(req_headers, "grpc-accept-encoding"),
        fr_tok,
        list(items),
        list(errs)
    )
}

fn configure_client<T>(grpc: tonic::client::Grpc<T>, snd: &str, acc: &str) -> Option<tonic::client::Grpc<T>> {
    let mut grpc = x::client_limits(grpc, true);
    for ch in snd.chars().filter(|c| *c != '-') {
        grpc = grpc.send_compressed(enc_of(ch)?);
    }
    for ch in acc.chars().filter(|c| *c != '-') {
        grpc = grpc.accept_compressed(enc_of(ch)?);
    }
    Some(x::client_limits(grpc, false))
}

fn run_cli(shape: &str, c: &mut Cur<'_>) -> Option<String> {
    let snd = c.next()?;
    let acc = c.next()?;
    let umd_enc = c.hexs("UE")?;
    let umd_acc = c.hexs("UA")?;
    c.lit("Q")?;
    let k = c.num()?;
    let reqmsg = unhex(c.next()?)?;
    let enc_vals = c.hexs("E")?;
    let hdr_status = c.optcode("HS")?;
    let frames = c.frames()?;
    let trl_status = c.optcode("TS")?;

    for v in &enc_vals {
        if http::HeaderValue::from_bytes(v).is_err() {
            return Some("not-a-header-value".into());
        }
    }
    let mut body = Vec::new();
    for (flag, pc, msg) in &frames {
        body.extend_from_slice(&wire_frame(*flag, &compress_with(*pc, msg)));
    }
    let cap = Arc::new(Mutex::new(Captured::default()));
    let warm_profile = Arc::new(Mutex::new(0u32));
    let transport = Transport { cap: cap.clone(), enc_vals: Arc::new(enc_vals), hdr_status, body: Arc::new(body), trl_status, warm: warm_profile.clone() };
    // shape prefix `w` / `W`: the client has already been USED before it gets (the rest of) its
    // configuration — a warm-up call is made after the first configuration call, then the
    // remaining calls are applied.  What a client sends and advertises must depend only on its
    // configuration at the time of the call, not on what it was when it was first used.
    let (warm, shape) = match shape.strip_prefix('w').or_else(|| shape.strip_prefix('W')) {
        Some(rest) => (true, if shape.starts_with('W') { rest.to_ascii_uppercase() } else { rest.to_string() }),
        None => (false, shape.to_string()),
    };
    let shape = shape.as_str();
    let grpc = if warm {
        let mut g = x::new_client(transport);
        let calls: Vec<(bool, char)> = snd.chars().filter(|c| *c != '-').map(|c| (true, c)).chain(acc.chars().filter(|c| *c != '-').map(|c| (false, c))).collect();
        let split = if calls.is_empty() { 0 } else { 1 };
        for (is_snd, ch) in &calls[..split] {
            g = if *is_snd { g.send_compressed(enc_of(*ch)?) } else { g.accept_compressed(enc_of(*ch)?) };
        }
        // the warm-up call (its outcome is irrelevant; the recording is reset afterwards)
        RT.with(|rt| {
            rt.block_on(async {
                if g.ready().await.is_ok() {
                    let _ = g.unary(Request::new(b"\0warm".to_vec()), http::uri::PathAndQuery::from_static("/svc/M"), RawCodec).await;
                }
            })
        });
        let mut g2 = g;
        for (is_snd, ch) in &calls[split..] {
            g2 = if *is_snd { g2.send_compressed(enc_of(*ch)?) } else { g2.accept_compressed(enc_of(*ch)?) };
        }
        *cap.lock().unwrap() = Captured::default();
        g2
    } else {
        configure_client(x::new_client(transport), snd, acc)?
    };
    let kn = x::knobs();
    let side_call = |g: &mut tonic::client::Grpc<Transport>| {
        RT.with(|rt| {
            rt.block_on(async {
                if g.ready().await.is_ok() {
                    let _ = g.unary(Request::new(b"\0side".to_vec()), http::uri::PathAndQuery::from_static("/svc/Other"), RawCodec).await;
                }
            })
        });
    };
    let mut grpc = grpc;
    if kn.wr != 0 {
        // history with peer feedback: the fully configured client first makes a call that the
        // peer answers by telling what it accepts / by an error
        *warm_profile.lock().unwrap() = kn.wr;
        side_call(&mut grpc);
        *cap.lock().unwrap() = Captured::default();
    }
    let grpc = match kn.cl {
        1 => {
            let a = grpc.clone();
            let b = a.clone();
            drop(grpc);
            drop(a);
            b
        }
        2 => {
            let mut c = grpc.clone();
            side_call(&mut c);
            drop(c);
            *cap.lock().unwrap() = Captured::default();
            grpc
        }
        _ => grpc,
    };
    let refs: Vec<Vec<u8>> = frames.iter().map(|f| f.2.clone()).collect();
    let (items, errs) = match drive_client(grpc, shape, k, &reqmsg, &umd_enc, &umd_acc, &refs) {
        Some(x) => x,
        None => return Some("bad-md".into()),
    };
    let cap = cap.lock().unwrap();
    Some(cli_tokens(&cap.headers, &cap.body, &reqmsg, &items, &errs))
}

// ---------------------------------------------------------------- a real client against a real server

#[derive(Default)]
struct Wire {
    req_headers: http::HeaderMap,
    req_body: Vec<u8>,
    resp_headers: http::HeaderMap,
    resp_data: Vec<u8>,
    resp_trailers: Option<http::HeaderMap>,
}

/// The client's transport is the server: the request is collected (and recorded), handed to a
/// real `server::Grpc`, whose response is collected (and recorded) and handed back.
#[derive(Clone)]
struct ServerTransport {
    shape: String,
    route: String,
    sacc: String,
    ssnd: String,
    script: Script,
    wire: Arc<Mutex<Wire>>,
}

impl tower_service::Service<http::Request<tonic::body::Body>> for ServerTransport {
    type Response = http::Response<RespBody>;
    type Error = Status;
    type Future = BoxFut<Result<http::Response<RespBody>, Status>>;
    fn poll_ready(&mut self, _: &mut Context<'_>) -> Poll<Result<(), Status>> {
        Poll::Ready(Ok(()))
    }
    fn call(&mut self, req: http::Request<tonic::body::Body>) -> Self::Future {
        let t = self.clone();
        Box::pin(async move {
            let (parts, mut body) = req.into_parts();
            let mut data = Vec::new();
            while let Some(fr) = body.frame().await {
                match fr {
                    Ok(f) => {
                        if let Ok(d) = f.into_data() {
                            data.extend_from_slice(&d);
                        }
                    }
                    Err(_) => break,
                }
            }
            {
                let mut w = t.wire.lock().unwrap();
                w.req_headers = parts.headers.clone();
                w.req_body = data.clone();
            }
            let req = http::Request::from_parts(parts, http_body_util::Full::new(Bytes::from(data)));
            let mut grpc = build_server(&t.route, &t.sacc, &t.ssnd).ok_or_else(|| Status::unknown("bad-config"))?;
            let shape = t.shape.to_ascii_lowercase();
            let (rparts, rdata, rtrailers) = serve_shape(&mut grpc, &shape, t.script.clone(), req).await;
            {
                let mut w = t.wire.lock().unwrap();
                w.resp_headers = rparts.headers.clone();
                w.resp_data = rdata.clone();
                w.resp_trailers = rtrailers.clone();
            }
            let mut frames: Vec<Result<http_body::Frame<Bytes>, Status>> = Vec::new();
            if !rdata.is_empty() {
                frames.push(Ok(http_body::Frame::data(Bytes::from(rdata))));
            }
            if let Some(tr) = rtrailers {
                frames.push(Ok(http_body::Frame::trailers(tr)));
            }
            Ok(http::Response::from_parts(rparts, http_body_util::StreamBody::new(tokio_stream::iter(frames))))
        })
    }
}

/// pair.<shape> <route> <cli snd> <cli acc> <srv acc> <srv snd> K k H <reply|fail> n dis Q reqmsg R rmsg
fn run_pair(shape: &str, c: &mut Cur<'_>) -> Option<String> {
    let route = c.next()?;
    let csnd = c.next()?;
    let cacc = c.next()?;
    let sacc = c.next()?;
    let ssnd = c.next()?;
    c.lit("K")?;
    let k = c.num()?;
    c.lit("H")?;
    let reply = match c.next()? {
        "reply" => true,
        "fail" => false,
        _ => return None,
    };
    let n = c.num()?;
    let disable = c.num()? != 0;
    c.lit("Q")?;
    let reqmsg = unhex(c.next()?)?;
    c.lit("R")?;
    let rmsg = unhex(c.next()?)?;
    build_server(route, sacc, ssnd)?;

    let rec = Arc::new(Mutex::new(Rec::default()));
    let script = Script {
        rec: rec.clone(),
        reqmsgs: Arc::new((0..k.max(1)).map(|_| reqmsg.clone()).collect()),
        reply,
        n,
        disable,
        md: Arc::new(vec![]),
        rmsg: Arc::new(rmsg.clone()),
    };
    let wire = Arc::new(Mutex::new(Wire::default()));
    let transport = ServerTransport { shape: shape.to_string(), route: route.to_string(), sacc: sacc.to_string(), ssnd: ssnd.to_string(), script, wire: wire.clone() };
    let grpc = configure_client(x::new_client(transport), csnd, cacc)?;
    let refs: Vec<Vec<u8>> = (0..n.max(1)).map(|_| rmsg.clone()).collect();
    let (items, errs) = drive_client(grpc, shape, k, &reqmsg, &[], &[], &refs)?;
    let w = wire.lock().unwrap();
    let rec = rec.lock().unwrap();
    let st = srv_tokens(&rec, &w.resp_headers, &w.resp_data, w.resp_trailers.as_ref(), &rmsg);
    let ct = cli_tokens(&w.req_headers, &w.req_body, &reqmsg, &items, &errs);
    let summary = st.split(' ').next().unwrap_or("").to_string();
    Some(format!("p{} S {} C {}", summary, st, ct))
}


// ---------------------------------------------------------------- generated client against generated server
//
//   gen.<j> <cli snd calls> <cli acc calls> <srv acc calls> <srv snd calls> <n>
// j = method of pool service a.S (0 unary, 3 server-streaming, 4 client-streaming, 5 bidi); the
// compression settings are made through the GENERATED builder methods (`send_compressed`,
// `accept_compressed` of the generated client and server types), a recording transport sits
// between them.  observed: qe=<grpc-encoding|-> qa=<grpc-accept-encoding|-> qf=<request flags>
//                          re=<grpc-encoding|-> rf=<response flags> out=<ok|errN>

#[derive(Default)]
struct GenWire {
    qe: String,
    qa: String,
    qf: String,
    re: String,
    rf: String,
}

#[derive(Clone)]
struct RecTransport<S> {
    inner: S,
    wire: Arc<Mutex<GenWire>>,
}

fn flags_of(data: &[u8]) -> String {
    let mut out = String::new();
    let mut i = 0;
    while i + 5 <= data.len() {
        let len = u32::from_be_bytes([data[i + 1], data[i + 2], data[i + 3], data[i + 4]]) as usize;
        out.push_str(&data[i].to_string());
        i += 5 + len;
    }
    if out.is_empty() {
        "-".into()
    } else {
        out
    }
}

fn hv(h: &http::HeaderMap, n: &str) -> String {
    let v: Vec<String> = h.get_all(n).iter().map(|v| String::from_utf8_lossy(v.as_bytes()).replace(' ', "_")).collect();
    if v.is_empty() {
        "-".into()
    } else {
        v.join("+")
    }
}

impl<S, RB> tower::Service<http::Request<tonic::body::Body>> for RecTransport<S>
where
    S: tower::Service<http::Request<tonic::body::Body>, Response = http::Response<RB>> + Clone + Send + 'static,
    RB: http_body::Body<Data = Bytes> + Send + 'static,
    S::Future: Send,
    S::Error: Send,
{
    type Response = http::Response<tonic::body::Body>;
    type Error = S::Error;
    type Future = Pin<Box<dyn Future<Output = Result<Self::Response, S::Error>> + Send>>;
    fn poll_ready(&mut self, cx: &mut Context<'_>) -> Poll<Result<(), S::Error>> {
        self.inner.poll_ready(cx)
    }
    fn call(&mut self, req: http::Request<tonic::body::Body>) -> Self::Future {
        let mut inner = self.inner.clone();
        let wire = self.wire.clone();
        Box::pin(async move {
            let (parts, body) = req.into_parts();
            let data = body.collect().await.map(|c| c.to_bytes()).unwrap_or_default();
            {
                let mut w = wire.lock().unwrap();
                w.qe = hv(&parts.headers, "grpc-encoding");
                w.qa = hv(&parts.headers, "grpc-accept-encoding");
                w.qf = flags_of(&data);
            }
            let req = http::Request::from_parts(parts, tonic::body::Body::new(http_body_util::Full::new(data)));
            let resp = inner.call(req).await?;
            let (parts, body) = resp.into_parts();
            let collected = body.collect().await.ok();
            let (data, trailers) = match collected {
                Some(c) => {
                    let t = c.trailers().cloned();
                    (c.to_bytes(), t)
                }
                None => (Bytes::new(), None),
            };
            {
                let mut w = wire.lock().unwrap();
                w.re = hv(&parts.headers, "grpc-encoding");
                w.rf = flags_of(&data);
            }
            let mut frames: Vec<Result<http_body::Frame<Bytes>, Status>> = Vec::new();
            if !data.is_empty() {
                frames.push(Ok(http_body::Frame::data(data)));
            }
            if let Some(t) = trailers {
                frames.push(Ok(http_body::Frame::trailers(t)));
            }
            Ok(http::Response::from_parts(parts, tonic::body::Body::new(http_body_util::StreamBody::new(tokio_stream::iter(frames)))))
        })
    }
}

fn run_gen(j: &str, c: &mut Cur<'_>) -> Option<String> {
    use crate::c10::pool::{self, Handler};
    let j: usize = j.parse().ok()?;
    let csnd = c.next()?;
    let cacc = c.next()?;
    let sacc = c.next()?;
    let ssnd = c.next()?;
    let n = c.num()?;
    let mut srv = pool::p0::s_server::SServer::new(Handler::default());
    for ch in sacc.chars().filter(|c| *c != '-') {
        srv = srv.accept_compressed(enc_of(ch)?);
    }
    for ch in ssnd.chars().filter(|c| *c != '-') {
        srv = srv.send_compressed(enc_of(ch)?);
    }
    let kn = x::knobs();
    if kn.ms != 0 {
        srv = srv.max_decoding_message_size(x::LIMIT).max_encoding_message_size(x::LIMIT);
    }
    let wire = Arc::new(Mutex::new(GenWire::default()));
    let arg = "x".repeat(n);
    macro_rules! configure_and_drive {
        ($cli:expr) => {{
            let mut cli = $cli;
            for ch in csnd.chars().filter(|c| *c != '-') {
                cli = cli.send_compressed(enc_of(ch)?);
            }
            for ch in cacc.chars().filter(|c| *c != '-') {
                cli = cli.accept_compressed(enc_of(ch)?);
            }
            if kn.ms != 0 {
                cli = cli.max_decoding_message_size(x::LIMIT).max_encoding_message_size(x::LIMIT);
            }
            RT.with(|rt| {
                rt.block_on(async {
                    let r: Result<usize, Status> = match j {
                        0 => cli.m0(Request::new(arg.clone())).await.map(|_| 1),
                        3 => match cli.m3(Request::new(arg.clone())).await {
                            Ok(s) => pool::drain(s.into_inner()).await.map(|v| v.len()),
                            Err(e) => Err(e),
                        },
                        4 => cli.m4(Request::new(x::items(vec![arg.clone(), arg.clone()]))).await.map(|_| 1),
                        _ => match cli.m5(Request::new(x::items(vec![arg.clone(), arg.clone()]))).await {
                            Ok(s) => pool::drain(s.into_inner()).await.map(|v| v.len()),
                            Err(e) => Err(e),
                        },
                    };
                    match r {
                        Ok(_) => "ok".to_string(),
                        Err(st) => format!("err{}", st.code() as i32),
                    }
                })
            })
        }};
    }
    fn pass(r: Request<()>) -> Result<Request<()>, Status> {
        Ok(r)
    }
    fn tag(mut r: Request<()>) -> Result<Request<()>, Status> {
        r.metadata_mut().insert("x-ic", tonic::metadata::MetadataValue::from_static("1"));
        Ok(r)
    }
    let out = match kn.ic {
        0 => configure_and_drive!(pool::p0::s_client::SClient::new(RecTransport { inner: srv, wire: wire.clone() })),
        ic => {
            // the interceptor layers of tonic's own stacks on both sides of the recording transport
            let f: fn(Request<()>) -> Result<Request<()>, Status> = if ic == 1 { pass } else { tag };
            let isrv = tonic::service::interceptor::InterceptedService::new(srv, f);
            configure_and_drive!(pool::p0::s_client::SClient::with_interceptor(RecTransport { inner: isrv, wire: wire.clone() }, f))
        }
    };
    let w = wire.lock().unwrap();
    Some(format!("qe={} qa={} qf={} re={} rf={} out={}", w.qe, w.qa, w.qf, w.re, w.rf, out))
}

/// `feat …`: answered by the side binary of ../harness_c05gz (tonic with `gzip` + `zstd` only), one process per case
fn execute_feat(case: &str) -> String {
    let rel = "harness_c05gz/target/debug/c05gz";
    let mut roots: Vec<std::path::PathBuf> = Vec::new();
    if let Ok(exe) = std::env::current_exe() {
        // <root>/harness/target/debug/harness
        if let Some(r) = exe.ancestors().nth(4) {
            roots.push(r.to_path_buf());
        }
    }
    roots.push(std::path::Path::new(env!("CARGO_MANIFEST_DIR")).join(".."));
    let Some(bin) = roots.into_iter().map(|r| r.join(rel)).find(|p| p.is_file()) else {
        return "side-binary-missing".into();
    };
    match std::process::Command::new(bin).args(case.split(' ')).output() {
        Ok(o) if o.status.success() => String::from_utf8_lossy(&o.stdout).trim().to_string(),
        _ => "side-process-died".into(),
    }
}

pub fn execute(case: &str) -> String {
    if case.starts_with("feat ") {
        return execute_feat(case);
    }
    let mut c = Cur { t: case.split(' ').filter(|s| !s.is_empty()).collect(), i: 0 };
    // `x.<knobs> <inner case>`: the inner case with dimensions turned that must make no difference
    x::set(x::Knobs::default());
    x::set_http_status(200);
    if c.t.first().is_some_and(|k| k.starts_with("x.")) {
        match x::parse(c.t[0]) {
            Some(k) => x::set(k),
            None => return "bad-case".into(),
        }
        c.i = 1;
    }
    let r = match c.next() {
        Some(k) if k.starts_with("srv.") => run_srv(&k[4..], &mut c),
        Some(k) if k.starts_with("cli.") => run_cli(&k[4..], &mut c),
        // clih.<shape> <http status> <rest of a cli case>: the scripted response has that HTTP status
        Some(k) if k.starts_with("clih.") => match c.num() {
            Some(st) if (100..1000).contains(&st) => {
                x::set_http_status(st as u16);
                run_cli(&k[5..], &mut c)
            }
            _ => None,
        },
        Some(k) if k.starts_with("pair.") => run_pair(&k[5..], &mut c),
        Some(k) if k.starts_with("gen.") => run_gen(&k[4..], &mut c),
        Some(k) if k.starts_with("stk.") => x::run_stk(&k[4..], &mut c),
        _ => None,
    };
    r.unwrap_or_else(|| "bad-case".into())
}

// ---------------------------------------------------------------- generation

fn hexlist(marker: &str, vals: &[Vec<u8>]) -> String {
    let mut s = format!("{} {}", marker, vals.len());
    for v in vals {
        s.push(' ');
        s.push_str(&hex(v));
    }
    s
}

#[derive(Clone)]
struct SrvCase {
    shape: &'static str,
    route: &'static str,
    acc: String,
    snd: String,
    enc: Vec<Vec<u8>>,
    accv: Vec<Vec<u8>>,
    frames: Vec<(u8, char, Vec<u8>)>,
    reply: bool,
    n: usize,
    dis: bool,
    md: Vec<Vec<u8>>,
    rmsg: Vec<u8>,
}

fn frames_tok(frames: &[(u8, char, Vec<u8>)]) -> String {
    let mut s = format!("F {}", frames.len());
    for (f, pc, m) in frames {
        s.push_str(&format!(" {} {} {}", f, pc, hex(m)));
    }
    s
}

impl SrvCase {
    fn line(&self) -> String {
        format!(
            "srv.{} {} {} {} {} {} {} H {} {} {} {} R {}",
            self.shape,
            self.route,
            self.acc,
            self.snd,
            hexlist("E", &self.enc),
            hexlist("A", &self.accv),
            frames_tok(&self.frames),
            if self.reply { "reply" } else { "fail" },
            self.n,
            self.dis as u8,
            hexlist("M", &self.md),
            hex(&self.rmsg)
        )
    }
    fn plain(shape: &'static str, acc: &str, snd: &str) -> SrvCase {
        SrvCase {
            shape,
            route: "d",
            acc: acc.into(),
            snd: snd.into(),
            enc: vec![],
            accv: vec![],
            frames: vec![(0, 'r', b"hello request".to_vec())],
            reply: true,
            n: 1,
            dis: false,
            md: vec![],
            rmsg: b"hello response hello response".to_vec(),
        }
    }
}

const SHAPES: [&str; 4] = ["u", "ss", "cs", "bi"];

/// all 16 ordered subsets of {g,d,z}
fn ordered_subsets() -> Vec<String> {
    let mut v = vec!["-".to_string()];
    let l = ['g', 'd', 'z'];
    for a in l {
        v.push(a.to_string());
        for b in l {
            if b != a {
                v.push(format!("{a}{b}"));
                for c in l {
                    if c != a && c != b {
                        v.push(format!("{a}{b}{c}"));
                    }
                }
            }
        }
    }
    v
}

fn calls(rng: &mut Rng, allow_pop: bool) -> String {
    match rng.below(10) {
        0..=5 => rng.pick(&ordered_subsets()).clone(),
        6 | 7 => {
            // with repeats
            let n = rng.range(1, 6);
            (0..n).map(|_| *rng.pick(&['g', 'd', 'z'])).collect()
        }
        _ => {
            let n = rng.range(1, 7);
            let s: String = (0..n).map(|_| if allow_pop && rng.chance(1, 3) { 'p' } else { *rng.pick(&['g', 'd', 'z']) }).collect();
            s
        }
    }
}

const TOKENS: [&str; 22] = [
    "gzip", "deflate", "zstd", "identity", "gzip", "zstd", "deflate", "GZIP", "Gzip", "gzipp", "gzi", "", "snappy", "br", "*", "gzip;q=1.0", "x-gzip", "zstd ", "de flate",
    "identity;q=0", "g", "zstdd",
];
const SEPS: [&str; 8] = [",", ",", ", ", " ,", " , ", ",\t", "\t,\t", ",  "];

/// a `grpc-accept-encoding`-like list value
fn list_value(rng: &mut Rng) -> Vec<u8> {
    let n = match rng.below(8) {
        0 => 0,
        1 | 2 => 1,
        3 | 4 => 2,
        5 => 3,
        6 => 4,
        _ if rng.chance(1, 25) => rng.range(30, 90),
        _ => rng.range(5, 9),
    } as usize;
    let mut v: Vec<u8> = Vec::new();
    if rng.chance(1, 6) {
        v.extend_from_slice(rng.pick(&[" ", "\t", ",", ", ", "  "]).as_bytes());
    }
    for i in 0..n {
        if i > 0 {
            v.extend_from_slice(rng.pick(&SEPS).as_bytes());
        }
        v.extend_from_slice(rng.pick(&TOKENS).as_bytes());
    }
    if rng.chance(1, 6) {
        v.extend_from_slice(rng.pick(&[" ", "\t", ",", " ,", "  "]).as_bytes());
    }
    // non-ASCII / odd bytes
    if rng.chance(1, 8) {
        let extra: &[u8] = match rng.below(6) {
            0 => b"\xc3\xa9",
            1 => b"\xa0",
            2 => b"\x85",
            3 => b"\xe2\x80\x83",
            4 => b"\x80",
            _ => b"\xff",
        };
        let pos = rng.below(v.len() as u64 + 1) as usize;
        let tail = v.split_off(pos);
        v.extend_from_slice(extra);
        v.extend(tail);
    }
    if rng.chance(1, 40) {
        // an arbitrary legal header byte somewhere
        let b = loop {
            let b = rng.next() as u8;
            if (b >= 32 && b != 127) || b == 9 {
                break b;
            }
        };
        let pos = rng.below(v.len() as u64 + 1) as usize;
        v.insert(pos, b);
    }
    v
}

/// a `grpc-encoding`-like single value
fn enc_value(rng: &mut Rng) -> Vec<u8> {
    match rng.below(12) {
        0..=5 => rng.pick(&["gzip", "deflate", "zstd", "identity"]).as_bytes().to_vec(),
        6 | 7 => rng
            .pick(&["", "Gzip", "GZIP", "gzip ", " gzip", "gzip,deflate", "identity,gzip", "gzip,identity", "Identity", "snappy", "zst", "zstdd", "deflate\t", "g", "identity ", "none", "x"])
            .as_bytes()
            .to_vec(),
        8 => {
            let mut v = rng.pick(&["gzip", "deflate", "zstd", "identity"]).as_bytes().to_vec();
            let extras: [&[u8]; 4] = [b"\xc3\xa9", b"\xa0", b"\xff", b"\x80"];
            let e: &[u8] = *rng.pick(&extras[..]);
            v.extend_from_slice(e);
            v
        }
        9 => list_value(rng),
        _ => {
            // one byte off a real name
            let mut v = rng.pick(&["gzip", "deflate", "zstd", "identity"]).as_bytes().to_vec();
            let i = rng.below(v.len() as u64) as usize;
            match rng.below(3) {
                0 => v[i] ^= 0x20,
                1 => {
                    v.remove(i);
                }
                _ => v.insert(i, v[i]),
            }
            v
        }
    }
}

fn message(rng: &mut Rng) -> Vec<u8> {
    let n = match rng.below(8) {
        0 => 0,
        1 => 1,
        2 => 5,
        3 => 31,
        4 => 300,
        _ => rng.range(2, 64),
    } as usize;
    // never starts like a gzip / zlib / zstd stream: first byte 0
    let mut m = vec![0u8; n];
    for (i, b) in m.iter_mut().enumerate().skip(1) {
        *b = if i % 3 == 0 { rng.next() as u8 } else { b'a' + (i % 7) as u8 };
    }
    m
}

/// frames for a receiver whose negotiated encoding letter is unknown to the generator: mostly
/// well-formed for `hint`, boundary-biased on the flag byte
fn req_frames(rng: &mut Rng, hint: char, max: u64) -> Vec<(u8, char, Vec<u8>)> {
    let n = match rng.below(10) {
        0 => 0,
        1..=6 => 1,
        7 | 8 => 2.min(max),
        _ => 3.min(max),
    };
    (0..n)
        .map(|_| {
            let (flag, pc) = match rng.below(14) {
                0..=4 => (0u8, 'r'),
                5..=8 if hint == '-' => (0u8, 'r'),
                5..=8 => (1u8, hint),
                9 => (1, *rng.pick(&['g', 'd', 'z'])),
                10 => (0, *rng.pick(&['g', 'd', 'z'])),
                11 => (*rng.pick(&[2u8, 3, 128, 129, 254, 255]), *rng.pick(&['r', 'g'])),
                12 => (1, 'r'),
                _ => (rng.next() as u8, 'r'),
            };
            let mut m = message(rng);
            if flag == 1 && pc == 'r' && m.is_empty() {
                m = vec![0, 1, 2];
            }
            (flag, pc, m)
        })
        .collect()
}

/// the encodings a call string leaves enabled (generator-side bias only; the oracle for this
/// lives in Lean)
fn enabled_letters(calls: &str) -> Vec<char> {
    let mut v: Vec<char> = Vec::new();
    for c in calls.chars() {
        match c {
            'p' => {
                v.pop();
            }
            '-' => {}
            c => {
                if !v.contains(&c) {
                    v.push(c);
                }
            }
        }
    }
    v
}

fn letter_name(c: char) -> &'static str {
    match c {
        'g' => "gzip",
        'd' => "deflate",
        _ => "zstd",
    }
}

/// a `grpc-encoding` for a receiver configured by `acc`: biased towards acceptable values
fn enc_for(rng: &mut Rng, acc: &str) -> Vec<Vec<u8>> {
    let en = enabled_letters(acc);
    match rng.below(20) {
        0..=6 => vec![],
        7..=11 if !en.is_empty() => vec![letter_name(*rng.pick(&en)).as_bytes().to_vec()],
        7..=11 => vec![b"identity".to_vec()],
        12 | 13 => vec![b"identity".to_vec()],
        14..=18 => vec![enc_value(rng)],
        _ => vec![enc_value(rng), enc_value(rng)],
    }
}

fn srv_random(rng: &mut Rng) -> SrvCase {
    let shape = *rng.pick(&SHAPES);
    let route = match rng.below(12) {
        0..=5 => "d",
        6..=8 => "c",
        9 | 10 => "D",
        _ => "C",
    };
    let acc = calls(rng, route.eq_ignore_ascii_case("c"));
    let snd = calls(rng, route.eq_ignore_ascii_case("c"));
    let enc = enc_for(rng, &acc);
    let mut accv: Vec<Vec<u8>> = match rng.below(12) {
        0 => vec![],
        1..=9 => vec![list_value(rng)],
        10 => vec![list_value(rng), list_value(rng)],
        _ => vec![list_value(rng), list_value(rng), list_value(rng)],
    };
    // half of the time make sure something the server may send is on offer somewhere in the
    // first line (as its own element), so that the compressing paths are well populated
    let sendable = enabled_letters(&snd);
    if !sendable.is_empty() && !accv.is_empty() && rng.chance(1, 2) {
        let name = letter_name(*rng.pick(&sendable)).as_bytes();
        let v = &mut accv[0];
        let commas: Vec<usize> = v.iter().enumerate().filter(|(_, b)| **b == b',').map(|(i, _)| i).collect();
        if v.is_empty() {
            v.extend_from_slice(name);
        } else if commas.is_empty() || rng.chance(1, 3) {
            if rng.chance(1, 2) {
                v.extend_from_slice(b",");
                v.extend_from_slice(name);
            } else {
                let mut w = name.to_vec();
                w.extend_from_slice(b", ");
                w.extend_from_slice(v);
                *v = w;
            }
        } else {
            let at = *rng.pick(&commas);
            let mut w = v[..=at].to_vec();
            w.extend_from_slice(name);
            w.push(b',');
            w.extend_from_slice(&v[at + 1..]);
            *v = w;
        }
    }
    let hint = enc.first().and_then(|v| match v.as_slice() {
        b"gzip" => Some('g'),
        b"deflate" => Some('d'),
        b"zstd" => Some('z'),
        _ => None,
    });
    let frames = req_frames(rng, hint.unwrap_or('-'), 3);
    let reply = !rng.chance(1, 8);
    let n = if reply { rng.below(4) as usize } else { rng.range(1, 16) as usize };
    SrvCase {
        shape,
        route,
        acc,
        snd,
        enc,
        accv,
        frames,
        reply,
        n,
        dis: rng.chance(1, 4),
        // now and then the handler writes `grpc-encoding` into its own response metadata
        md: if rng.chance(1, 40) {
            (0..rng.range(1, 2)).map(|_| rng.pick(&["gzip", "deflate", "zstd", "identity", "snappy"]).as_bytes().to_vec()).collect()
        } else {
            vec![]
        },
        rmsg: message(rng),
    }
}

fn cli_line(
    shape: &str,
    snd: &str,
    acc: &str,
    ue: &[Vec<u8>],
    ua: &[Vec<u8>],
    k: usize,
    reqmsg: &[u8],
    enc: &[Vec<u8>],
    hs: Option<i32>,
    frames: &[(u8, char, Vec<u8>)],
    ts: Option<i32>,
) -> String {
    let oc = |o: Option<i32>| o.map(|c| c.to_string()).unwrap_or_else(|| "none".into());
    format!(
        "cli.{} {} {} {} {} Q {} {} {} HS {} {} TS {}",
        shape,
        snd,
        acc,
        hexlist("UE", ue),
        hexlist("UA", ua),
        k,
        hex(reqmsg),
        hexlist("E", enc),
        oc(hs),
        frames_tok(frames),
        oc(ts)
    )
}

const SHAPES_CLONED: [&str; 4] = ["U", "SS", "CS", "BI"];

fn cli_random(rng: &mut Rng) -> String {
    let shape = if rng.chance(1, 4) { *rng.pick(&SHAPES_CLONED) } else { *rng.pick(&SHAPES) };
    let snd: String = match rng.below(6) {
        0 | 1 => "-".into(),
        2 | 3 => rng.pick(&['g', 'd', 'z']).to_string(),
        _ => (0..rng.range(2, 4)).map(|_| *rng.pick(&['g', 'd', 'z'])).collect(),
    };
    let acc = calls(rng, false);
    let enc = enc_for(rng, &acc);
    let hint = enc.first().and_then(|v| match v.as_slice() {
        b"gzip" => Some('g'),
        b"deflate" => Some('d'),
        b"zstd" => Some('z'),
        _ => None,
    });
    let frames = req_frames(rng, hint.unwrap_or('-'), 3);
    let hs = match rng.below(12) {
        0 => Some(0),
        1 => Some(rng.range(1, 16) as i32),
        _ => None,
    };
    let ts = match rng.below(8) {
        0 => None,
        1 => Some(rng.range(1, 16) as i32),
        _ => Some(0),
    };
    // now and then the caller's own metadata carries the negotiation headers
    let forged = |rng: &mut Rng| -> Vec<Vec<u8>> {
        if rng.chance(1, 40) {
            (0..rng.range(1, 2)).map(|_| rng.pick(&["gzip", "deflate", "zstd", "identity", "gzip,zstd", "snappy"]).as_bytes().to_vec()).collect()
        } else {
            vec![]
        }
    };
    let ue = forged(rng);
    let ua = forged(rng);
    cli_line(shape, &snd, &acc, &ue, &ua, rng.below(4) as usize, &message(rng), &enc, hs, &frames, ts)
}

pub fn generate(tier: &str, rng: &mut Rng) -> Vec<String> {
    let mut feat_cases: Vec<String> = Vec::new();
    // a build of tonic with gzip + zstd only (side crate harness_c05gz, seed C05i)
    for snd in ["-", "g", "z"] {
        for acc in ["-", "g", "z", "gz"] {
            for a in ["-", "gzip", "deflate", "zstd", "identity", "deflate,zstd", "zstd,gzip", "gzip,_deflate", "br", "identity,deflate"] {
                feat_cases.push(format!("feat srv {} {} A {} E -", snd, acc, a));
            }
            for e in ["gzip", "deflate", "zstd", "identity", "br"] {
                feat_cases.push(format!("feat srv {} {} A gzip,deflate,zstd E {}", snd, acc, e));
            }
        }
    }
    let thorough = tier == "thorough";
    let mut out: Vec<String> = feat_cases;

    // ---- corpus: DESIGN §5.4 witness and neighbours (first known token not enabled for sending)
    for (snd, av) in [("g", "zstd,gzip"), ("g", "zstd"), ("d", "gzip, deflate"), ("gz", "deflate,zstd,gzip"), ("z", "gzip,deflate"), ("g", "deflate , gzip")] {
        for shape in SHAPES {
            let mut c = SrvCase::plain(shape, "-", snd);
            c.accv = vec![av.as_bytes().to_vec()];
            out.push(c.line());
            c.route = "c";
            out.push(c.line());
        }
    }

    // corpus: the negotiation headers supplied by the application itself (known findings
    // C05-F1..F3: they pass through when the corresponding setting is not configured)
    for shape in SHAPES {
        for snd in ["-", "g"] {
            for md in ["gzip", "zstd"] {
                let mut c = SrvCase::plain(shape, "-", snd);
                c.accv = vec![b"gzip".to_vec()];
                c.md = vec![md.as_bytes().to_vec()];
                out.push(c.line());
            }
        }
        let fr = vec![(0u8, 'r', b"\0resp".to_vec())];
        for (snd, acc) in [("-", "-"), ("g", "-"), ("-", "g"), ("z", "dz")] {
            out.push(cli_line(shape, snd, acc, &[b"gzip".to_vec()], &[], 1, b"\0req", &[], None, &fr, Some(0)));
            out.push(cli_line(shape, snd, acc, &[], &[b"gzip,identity".to_vec()], 1, b"\0req", &[], None, &fr, Some(0)));
            out.push(cli_line(shape, snd, acc, &[b"zstd".to_vec(), b"gzip".to_vec()], &[b"deflate".to_vec()], 2, b"\0req", &[], None, &fr, Some(0)));
        }
    }

    // ---- structured: the full matrix send-set × accept-header vocabulary (one shape per cell,
    // rotating), then accept-set × grpc-encoding vocabulary
    let subsets = ordered_subsets();
    let accept_vocab: Vec<&str> = vec![
        "", "gzip", "deflate", "zstd", "identity", "gzip,deflate,zstd", "zstd,deflate,gzip", "deflate,gzip", "identity,gzip", "identity, deflate, gzip", "gzip, zstd", " gzip", "gzip ", "\tzstd\t",
        ",gzip", "gzip,", ",,deflate,,", "GZIP", "Gzip,deflate", "gzipp,zstd", "gzi p", "gz,ip", "snappy,zstd", "zstd;q=1", "*", "deflate ,\tgzip", "gzip\u{e9}", "\u{a0}gzip", "zstd, gzip\u{2003}",
    ];
    let mut rot = 0usize;
    for snd in &subsets {
        for av in &accept_vocab {
            let mut c = SrvCase::plain(SHAPES[rot % 4], "-", snd);
            rot += 1;
            c.accv = vec![av.as_bytes().to_vec()];
            c.n = 2;
            out.push(c.line());
        }
    }
    let enc_vocab: Vec<&str> = vec!["gzip", "deflate", "zstd", "identity", "", "Gzip", "gzip ", " zstd", "gzip,deflate", "identity,gzip", "snappy", "zst", "deflat\u{e9}"];
    for acc in &subsets {
        for ev in &enc_vocab {
            let mut c = SrvCase::plain(SHAPES[rot % 4], acc, "-");
            rot += 1;
            c.enc = vec![ev.as_bytes().to_vec()];
            let pc = match *ev {
                "gzip" => 'g',
                "deflate" => 'd',
                "zstd" => 'z',
                _ => 'r',
            };
            c.frames = vec![(if pc == 'r' { 0 } else { 1 }, pc, b"\0payload payload payload".to_vec())];
            out.push(c.line());
        }
    }
    // flag × negotiated encoding × payload coding, all shapes
    for shape in SHAPES {
        for ev in ["", "identity", "gzip", "deflate", "zstd"] {
            for flag in [0u8, 1, 2, 255] {
                for pc in ['r', 'g', 'd', 'z'] {
                    let mut c = SrvCase::plain(shape, "gdz", "g");
                    if !ev.is_empty() {
                        c.enc = vec![ev.as_bytes().to_vec()];
                    }
                    // the flagged message with a normal, a 1-byte and an EMPTY payload (a zero-length
                    // frame with the compressed flag set must be refused just the same)
                    for second in [b"\0second message".to_vec(), vec![0u8], Vec::new()] {
                        c.frames = vec![(0, 'r', b"\0first".to_vec()), (flag, pc, second)];
                        out.push(c.line());
                        c.frames.remove(0);
                        out.push(c.line());
                    }
                }
            }
        }
    }
    // per-response override and handler failure under every chosen encoding
    for shape in SHAPES {
        for snd in ["-", "g", "d", "z"] {
            for dis in [false, true] {
                let mut c = SrvCase::plain(shape, "-", snd);
                c.accv = vec![b"gzip,deflate,zstd".to_vec()];
                c.dis = dis;
                c.n = 2;
                out.push(c.line());
                c.reply = false;
                c.n = 7;
                out.push(c.line());
            }
        }
    }

    // every configuration-call sequence up to a length bound, on both routes, observed through
    // the accept list of a refusal (server) / the advertised list (client)
    let maxlen = if thorough { 5 } else { 3 };
    let mut seqs: Vec<String> = vec!["-".to_string()];
    let mut frontier: Vec<String> = vec![String::new()];
    for _ in 0..maxlen {
        let mut next = Vec::new();
        for s in &frontier {
            for ch in ['g', 'd', 'z', 'p'] {
                let t = format!("{s}{ch}");
                seqs.push(t.clone());
                next.push(t);
            }
        }
        frontier = next;
    }
    for sq in &seqs {
        let has_pop = sq.contains('p');
        for route in ["d", "c", "C"] {
            if has_pop && route == "d" {
                continue;
            }
            let mut c = SrvCase::plain(SHAPES[rot % 4], sq, sq);
            rot += 1;
            c.route = route;
            c.enc = vec![b"x".to_vec()];
            out.push(c.line());
            // and through the choice: what does this send-set pick from "zstd,deflate,gzip"?
            let mut c = SrvCase::plain(SHAPES[rot % 4], "-", sq);
            c.route = route;
            c.accv = vec![b"zstd, deflate, gzip".to_vec()];
            out.push(c.line());
        }
        if !has_pop {
            let fr = vec![(0u8, 'r', b"\0resp".to_vec())];
            let snd: String = sq.chars().rev().collect();
            out.push(cli_line(if rot % 2 == 0 { "u" } else { "U" }, &snd, sq, &[], &[], 1, b"\0req", &[], None, &fr, Some(0)));
        }
    }

    // client: send × accept matrix; response encodings × accept sets × flags
    for shape in SHAPES.iter().chain(SHAPES_CLONED.iter()).copied() {
        for snd in ["-", "g", "d", "z", "gz", "zdg"] {
            for acc in &subsets {
                let fr = vec![(0u8, 'r', b"\0resp".to_vec())];
                out.push(cli_line(shape, snd, acc, &[], &[], 2, b"\0request request request", &[], None, &fr, Some(0)));
            }
        }
    }
    for acc in &subsets {
        for ev in &enc_vocab {
            for flag in [0u8, 1] {
                let pc = match *ev {
                    "gzip" => 'g',
                    "deflate" => 'd',
                    "zstd" => 'z',
                    _ => 'r',
                };
                let pc = if flag == 0 { 'r' } else { pc };
                let fr = vec![(flag, pc, b"\0response response".to_vec())];
                out.push(cli_line(SHAPES[rot % 4], "-", acc, &[], &[], 1, b"\0q", &[ev.as_bytes().to_vec()], None, &fr, Some(0)));
                rot += 1;
            }
        }
    }
    for shape in SHAPES {
        for ev in ["", "identity", "gzip"] {
            for hs in [None, Some(0), Some(5)] {
                for ts in [None, Some(0), Some(9)] {
                    for flag in [0u8, 1, 3] {
                        let enc: Vec<Vec<u8>> = if ev.is_empty() { vec![] } else { vec![ev.as_bytes().to_vec()] };
                        let fr = vec![(0u8, 'r', b"\0a".to_vec()), (flag, if flag == 1 { 'g' } else { 'r' }, b"\0bb".to_vec())];
                        out.push(cli_line(shape, "g", "g", &[], &[], 1, b"\0q", &enc, hs, &fr, ts));
                        // a flagged frame whose payload is raw and empty / one byte
                        for p in [Vec::new(), vec![0u8]] {
                            let fr = vec![(flag, 'r', p)];
                            out.push(cli_line(shape, "g", "g", &[], &[], 1, b"\0q", &enc, hs, &fr, ts));
                        }
                    }
                }
            }
        }
    }

    // ---- clients that were already used before their configuration was completed (a warm-up call
    // after the first configuration call): what they send and advertise must be the same as for a
    // client configured up front — fresh (`w…`) and cloned after the reconfiguration (`W…`)
    {
        let fr = vec![(0u8, 'r', b"\0resp".to_vec())];
        for snd in ["-", "g", "z"] {
            for acc in &subsets {
                for shape in ["wu", "wss", "wcs", "wbi", "WU", "WBI"] {
                    if snd == "-" && *acc == "-" {
                        continue;
                    }
                    out.push(cli_line(shape, snd, acc, &[], &[], 1, b"\0req", &[], None, &fr, Some(0)));
                }
            }
        }
    }

    // ---- generated client against generated server (settings through the generated builder methods)
    for j in [0usize, 3, 4, 5] {
        for csnd in ["-", "g", "d", "z", "gz"] {
            for cacc in ["-", "g", "zd", "gdz", "dg"] {
                for sacc in ["-", "g", "dz", "gdz"] {
                    for ssnd in ["-", "g", "z", "dg", "zdg"] {
                        if (j + csnd.len() + cacc.len() * 2 + sacc.len() * 3 + ssnd.len() * 5) % 3 == 0 || thorough {
                            out.push(format!("gen.{} {} {} {} {} {}", j, csnd, cacc, sacc, ssnd, (j + cacc.len()) % 4));
                        }
                    }
                }
            }
        }
    }

    // ---- a real client against a real server: the full matrix client-send × client-accept ×
    // server-accept × server-send over all ordered subsets (4 × 16 × 16 × 16), shapes / routes /
    // stream lengths / handler scripts rotating through it
    let routes = ["d", "c", "D", "C"];
    let mut pr = 0usize;
    for csnd in ["-", "g", "d", "z"] {
        for cacc in &subsets {
            for sacc in &subsets {
                for ssnd in &subsets {
                    pr += 1;
                    let shape = if pr % 7 == 0 { SHAPES_CLONED[pr % 4] } else { SHAPES[pr % 4] };
                    let handler = match pr % 11 {
                        0 => format!("fail {} 0", 1 + pr % 16),
                        1 | 2 => format!("reply {} 1", pr % 4),
                        _ => format!("reply {} 0", pr % 4),
                    };
                    out.push(format!(
                        "pair.{} {} {} {} {} {} K {} H {} Q {} R {}",
                        shape,
                        routes[pr % 4],
                        csnd,
                        cacc,
                        sacc,
                        ssnd,
                        pr % 3,
                        handler,
                        hex(if pr % 5 == 0 { b"" } else { b"\0request request request request" }),
                        hex(if pr % 6 == 0 { b"" } else { b"\0response response response response" })
                    ));
                }
            }
        }
    }
    let npair = if thorough { 60000 } else { 4000 };
    for _ in 0..npair {
        let route = *rng.pick(&routes);
        let pops = route.eq_ignore_ascii_case("c");
        let csnd: String = match rng.below(4) {
            0 => "-".into(),
            1 | 2 => rng.pick(&['g', 'd', 'z']).to_string(),
            _ => (0..rng.range(2, 4)).map(|_| *rng.pick(&['g', 'd', 'z'])).collect(),
        };
        let handler = match rng.below(10) {
            0 => format!("fail {} 0", rng.range(1, 16)),
            1 | 2 => format!("reply {} 1", rng.below(4)),
            _ => format!("reply {} 0", rng.below(4)),
        };
        let shape = if rng.chance(1, 5) { *rng.pick(&SHAPES_CLONED) } else { *rng.pick(&SHAPES) };
        out.push(format!(
            "pair.{} {} {} {} {} {} K {} H {} Q {} R {}",
            shape,
            route,
            csnd,
            calls(rng, false),
            calls(rng, pops),
            calls(rng, pops),
            rng.below(4),
            handler,
            hex(&message(rng)),
            hex(&message(rng))
        ));
    }

    // ---- random structured + malformed
    let (ns, nc) = if thorough { (300000, 150000) } else { (16000, 8000) };
    for _ in 0..ns {
        out.push(srv_random(rng).line());
    }
    for _ in 0..nc {
        out.push(cli_random(rng));
    }

    // ---- dimensions that must be invisible (knobs) and large messages: see c05_x.rs
    x::generate(tier, rng, &mut out);

    // ---- thorough: small-scope exhaustive — every ordered subset for send × every list of ≤ 3
    // tokens over a 6-token alphabet with two separators
    if thorough {
        let alpha = ["gzip", "deflate", "zstd", "identity", "x", ""];
        let mut lists: Vec<String> = vec![];
        for a in alpha {
            lists.push(a.to_string());
            for b in alpha {
                for sep in [",", ", "] {
                    lists.push(format!("{a}{sep}{b}"));
                }
                for c in alpha {
                    lists.push(format!("{a},{b},{c}"));
                }
            }
        }
        for snd in &subsets {
            for l in &lists {
                let mut c = SrvCase::plain(SHAPES[rot % 4], "-", snd);
                rot += 1;
                c.accv = vec![l.as_bytes().to_vec()];
                out.push(c.line());
            }
        }
    }
    out
}
