//! C07 — hostile or truncated input ends a stream with one error, never a hang or panic.
use crate::common::*;
use crate::framing::*;

// audit aC07: body flavours (hints, segmented DATA, boxed errors) and message()/trailers() consumers
#[path = "c07_x.rs"]
mod x;

pub fn generate(tier: &str, rng: &mut Rng) -> Vec<String> {
    let thorough = tier == "thorough";
    let mut out = Vec::new();
    // corpus: DESIGN §5.5 witnesses
    out.push("dec req none none 8192 6 Z 0 EV d0700000000010900000000020909".to_string());
    out.push("dec req none none 8192 6 Z 0 EV d00000000050102".to_string());
    out.push("dec resp200 none none 8192 6 Z 0 EV d00000000050102 t0".to_string());
    out.push("dec resp200 none none 8192 6 Z 0 EV d0000000001 e14".to_string());
    out.push("dec req none none 8192 6 Z 0 EV d0100000000".to_string());
    out.push("dec req none 4 8192 6 Z 0 EV d00000000050102030405 d000000000109".to_string());
    out.push("dec req none none 8192 6 Z 0 EV d0000000003ff0102 d000000000109".to_string());
    // rev1 §1 witness: BufferSettings::new(0, _) + a compressed frame used to divide by zero in
    // `decompress` (fixed: "a zero buffer_size no longer divides by zero when (de)compressing")
    for e in [tonic::codec::CompressionEncoding::Gzip, tonic::codec::CompressionEncoding::Deflate, tonic::codec::CompressionEncoding::Zstd] {
        let stream = frame(1, &oracle_compress(e, &[10, 11, 12]));
        let evs = vec![format!("d{}", hexr(&stream))];
        out.push(DecCase { dir: "req".into(), enc: Some(e), max: None, buf_size: 0, evs, stream, extra_polls: 3 }.line());
    }
    let n = if thorough { 60000 } else { 5000 };
    for _ in 0..n {
        out.push(gen_dec_hostile(rng).line());
    }
    for _ in 0..n / 5 {
        out.push(gen_dec_valid(rng, true).line());
    }
    // many tiny messages buffered at once (seed C07g)
    for i in 0..(if thorough { 300 } else { 24 }) {
        out.push(gen_dec_many(rng, i % 3 != 0).line());
    }
    // one frame above 64 KiB with more frames behind it in the same chunk (seed C07f)
    for i in 0..(if thorough { 600 } else { 60 }) {
        out.push(gen_dec_big(rng, i % 3 != 0).line());
    }
    // ---- hostile input for the real prost decoder (rev1 S1 / M1 / M5, seed C07c) ----
    // corpus: a length varint cut off by the end of the payload, more frames behind it in the same
    // chunk (reading past the payload's end must not happen); the same as the last frame of the
    // body (an undecodable last message is an error, not a clean end); an undecodable payload
    // followed by a valid frame; zero bytes where a field key is expected (padding must not be
    // taken for the end of the message: the rest of the frame would be read as the next header)
    for (stream, evs) in [
        (vec![0u8, 0, 0, 0, 2, 0x0a, 0x80, 0, 0, 0, 0, 2, 0x0a, 0], vec!["d00000000020a8000000000020a00"]),
        (vec![0u8, 0, 0, 0, 2, 0x0a, 0x80], vec!["d00000000020a80"]),
        (vec![0u8, 0, 0, 0, 2, 0x0a, 0, 0, 0, 0, 0, 2, 0x0a, 0x80], vec!["d00000000020a00", "d00000000020a80"]),
        (vec![0u8, 0, 0, 0, 3, 0xff, 0xff, 0xff, 0, 0, 0, 0, 2, 0x0a, 0], vec!["d0000000003ffffff", "d00000000020a00"]),
        (vec![0u8, 0, 0, 0, 8, 0x0a, 0x01, 0x61, 0, 0, 0, 0, 0], vec!["d00000000080a01610000000000"]),
        (vec![0u8, 0, 0, 0, 5, 0x0a, 0x01, 0x61, 0, 0, 0, 0, 0, 0, 2, 0x0a, 0], vec!["d00000000050a01610000", "d00000000020a00"]),
        (vec![0u8, 0, 0, 0, 4, 0x12, 0x01, 0x09, 0, 0, 0, 0, 0, 0], vec!["d000000000412010900", "p", "d0000000000"]),
    ] {
        for dir in ["req", "resp200"] {
            out.push(DecCase { dir: dir.into(), enc: None, max: None, buf_size: 8192, evs: evs.iter().map(|e| e.to_string()).collect(), stream: stream.clone(), extra_polls: 4 }.pline());
        }
    }
    // nesting bombs (seed C07e: prost's recursion limit switched off): a payload that is one long run of
    // START_GROUP keys of an unknown field (0x7b = field 15, wire type 3), or of nested length-delimited
    // fields, must be refused with one error - never by a stack overflow that kills the process (a process
    // that dies is isolated by `check`'s crash bisect and reported as fail:process-dies)
    for depth in [99usize, 100, 101, 5_000, 1_000_000] {
        let mut payload = vec![0x7bu8; depth];
        payload.truncate(depth);
        let mut stream = frame(0, &[0x0a, 0x01, 0x61]);
        stream.extend(frame(0, &payload));
        stream.extend(frame(0, &[0x0a, 0x00]));
        let evs = vec![format!("d{}", hexr(&stream))];
        out.push(DecCase { dir: "req".into(), enc: None, max: Some(4 * 1024 * 1024), buf_size: 8192, evs, stream, extra_polls: 3 }.pline());
    }
    for depth in [50usize, 101, 400] {
        // field 2 (`Any.value`, bytes) is not recursive in the test message, so nest an unknown
        // length-delimited field 15 (0x7a) inside itself `depth` times: skipped, not recursed - valid;
        // and nested START_GROUPs closed properly by END_GROUPs (0x7c)
        let mut inner: Vec<u8> = vec![];
        for _ in 0..depth {
            let mut m = vec![0x7a];
            let mut l = inner.len();
            loop {
                let b = (l & 0x7f) as u8;
                l >>= 7;
                if l == 0 { m.push(b); break; } else { m.push(b | 0x80); }
            }
            m.extend(inner);
            inner = m;
        }
        let mut groups = vec![0x7bu8; depth];
        groups.extend(vec![0x7cu8; depth]);
        for payload in [inner, groups] {
            let mut stream = frame(0, &payload);
            stream.extend(frame(0, &[0x0a, 0x00]));
            let evs = vec![format!("d{}", hexr(&stream))];
            out.push(DecCase { dir: "resp200".into(), enc: None, max: None, buf_size: 16, evs, stream, extra_polls: 3 }.pline());
        }
    }
    for _ in 0..n / 2 {
        out.push(gen_pdec_hostile(rng).pline());
    }
    // every truncation point of a few prost streams, hostile payloads included
    for _ in 0..(if thorough { 30 } else { 5 }) {
        let c = gen_pdec_hostile(rng);
        for cut in 0..c.stream.len() {
            let b = &c.stream[..cut];
            let style = rng.below(4);
            let chunks = chunkings(rng, b, &[], style);
            let evs = events_from_chunks(rng, chunks, false);
            out.push(DecCase { dir: if rng.chance(1, 2) { "req".into() } else { "resp200".into() }, enc: c.enc, max: None, buf_size: *rng.pick(&BUF_SIZES), evs, stream: b.to_vec(), extra_polls: 4 }.pline());
        }
    }
    // truncation at every byte of a few valid streams, each also cut at every byte
    let k = if thorough { 40 } else { 6 };
    for _ in 0..k {
        let enc = *rng.pick(&ENCS);
        let (bytes, starts, _) = gen_valid_stream(rng, enc, 12);
        for cut in 0..bytes.len() {
            let b = &bytes[..cut];
            let style = rng.below(4);
            let chunks = chunkings(rng, b, &starts, style);
            let evs = events_from_chunks(rng, chunks, false);
            out.push(DecCase { dir: gen_dir(rng), enc, max: None, buf_size: *rng.pick(&BUF_SIZES), evs, stream: b.to_vec(), extra_polls: 4 }.line());
        }
    }
    if thorough {
        // small-scope exhaustive: hostile byte strings × every 1- and 2-cut chunking × one special
        // event (Pending, trailers, body error) inserted at every position
        let strings: Vec<Vec<u8>> = vec![
            vec![0, 0, 0, 0, 1, 9, 0, 0, 0, 0, 0],
            vec![7, 0, 0, 0, 0, 1, 9],
            vec![0, 0, 0, 0, 2, 9],
            vec![1, 0, 0, 0, 0, 0, 0, 0, 0, 1, 5],
            vec![0, 0, 0, 0, 1, 0xFF, 0, 0, 0, 0, 1, 4],
            vec![0, 0, 0, 0, 9, 1, 2],
            vec![0, 0, 0],
            vec![0, 0xFF, 0xFF, 0xFF, 0xFF],
        ];
        let specials = ["p", "t0", "tnone", "t5", "e1", "e13"];
        for b in &strings {
            let n = b.len();
            let mut cutsets: Vec<Vec<usize>> = vec![vec![]];
            for i in 1..n {
                cutsets.push(vec![i]);
                for j in i + 1..n {
                    cutsets.push(vec![i, j]);
                }
            }
            for cuts in cutsets {
                let mut chunks = Vec::new();
                let mut prev = 0;
                for c in &cuts {
                    chunks.push(b[prev..*c].to_vec());
                    prev = *c;
                }
                chunks.push(b[prev..].to_vec());
                let base: Vec<String> = chunks.iter().map(|c| format!("d{}", hexr(c))).collect();
                for dir in ["req", "resp200", "resp503"] {
                    out.push(DecCase { dir: dir.into(), enc: None, max: Some(8), buf_size: 16, evs: base.clone(), stream: b.clone(), extra_polls: 3 }.line());
                    for sp in specials {
                        for pos in 0..=base.len() {
                            let mut evs = base.clone();
                            evs.insert(pos, sp.to_string());
                            out.push(DecCase { dir: dir.into(), enc: None, max: Some(8), buf_size: 16, evs, stream: b.clone(), extra_polls: 3 }.line());
                        }
                    }
                }
            }
        }
    }
    out.extend(x::generate(tier, rng));
    out
}

pub fn execute(case: &str) -> String {
    if case.starts_with("xdec ") {
        return x::execute(case);
    }
    crate::framing::execute(case)
}
