//! C06 — message size limits are enforced exactly and without collateral loss.
use crate::common::*;
use crate::framing::*;

pub fn generate(tier: &str, rng: &mut Rng) -> Vec<String> {
    let thorough = tier == "thorough";
    let mut out = Vec::new();
    // corpus: DESIGN §5.1 witness — [3 B, 3 B, 100 B] with encode limit 10, all ready at once
    out.push(
        EncCase { server: true, comp: None, disable: false, yield_thr: 32768, buf_size: 8192, max: Some(10),
                  evs: vec!["i010203".into(), "i040506".into(), format!("i{}", "07".repeat(100))],
                  items: vec![vec![1, 2, 3], vec![4, 5, 6], vec![7; 100]], extra_polls: 3 }.line(),
    );
    out.push(
        EncCase { server: false, comp: None, disable: false, yield_thr: 32768, buf_size: 8192, max: Some(10),
                  evs: vec!["i010203".into(), format!("i{}", "07".repeat(11)), "i09".into()],
                  items: vec![vec![1, 2, 3], vec![7; 11], vec![9]], extra_polls: 3 }.line(),
    );
    // declared lengths up to 2^32-1 with no payload following, default and configured limits
    for (max, len) in [(None, 0x0040_0001u32), (None, 0xFFFF_FFFF), (Some(0usize), 1u32), (Some(1024), 1025), (Some(5), 6), (None, 0x0040_0000)] {
        let mut b = frame(0, &[1, 2]);
        b.push(0);
        b.extend_from_slice(&len.to_be_bytes());
        let maxs = max.map(|m: usize| m.to_string()).unwrap_or_else(|| "none".into());
        out.push(format!("dec req none {} 8192 6 Z 0 EV d{}", maxs, &hex(&b)[1..]));
        // prefix split across chunks
        out.push(format!("dec resp200 none {} 8192 8 Z 0 EV d{} p d{}", maxs, &hex(&b[..9])[1..], &hex(&b[9..])[1..]));
    }
    let n = if thorough { 30000 } else { 2500 };
    for _ in 0..n {
        let e = rng.chance(1, 3);
        out.push(gen_enc_case(rng, e, true).line());
    }
    for _ in 0..n {
        let mut c = gen_dec_valid(rng, true);
        if c.dir == "empty" {
            c.dir = "req".into();
        }
        out.push(c.line());
    }
    out
}

pub fn execute(case: &str) -> String {
    crate::framing::execute(case)
}
