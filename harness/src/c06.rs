//! C06 — message size limits are enforced exactly and without collateral loss.
//! Case kinds: `enc` / `dec` (framing.rs), `lim.srv` / `lim.cli` / `lim.gen` (below), and — added by the
//! proactive dimension audit, see the header of c06_x.rs — `lim.seq`, `lim.genp`, `dech`.
use crate::common::*;
use crate::framing::*;

#[path = "c06_x.rs"]
mod x;

pub fn generate(tier: &str, rng: &mut Rng) -> Vec<String> {
    let thorough = tier == "thorough";
    let mut out = Vec::new();
    // corpus: DESIGN §5.1 witness — [3 B, 3 B, 100 B] with encode limit 10, all ready at once
    out.push(
        EncCase { server: true, comp: None, disable: false, yield_thr: 32768, buf_size: 8192, max: Some(10),
                  evs: vec!["i010203".into(), "i040506".into(), format!("i{}", "07".repeat(100))],
                  items: vec![vec![1, 2, 3], vec![4, 5, 6], vec![7; 100]], extra_polls: 3 }.line(),
    );
    out.push(
        EncCase { server: false, comp: None, disable: false, yield_thr: 32768, buf_size: 8192, max: Some(10),
                  evs: vec!["i010203".into(), format!("i{}", "07".repeat(11)), "i09".into()],
                  items: vec![vec![1, 2, 3], vec![7; 11], vec![9]], extra_polls: 3 }.line(),
    );
    // declared lengths up to 2^32-1 with no payload following, default and configured limits
    for (max, len) in [(None, 0x0040_0001u32), (None, 0xFFFF_FFFF), (Some(0usize), 1u32), (Some(1024), 1025), (Some(5), 6), (None, 0x0040_0000)] {
        let mut b = frame(0, &[1, 2]);
        b.push(0);
        b.extend_from_slice(&len.to_be_bytes());
        let maxs = max.map(|m: usize| m.to_string()).unwrap_or_else(|| "none".into());
        out.push(format!("dec req none {} 8192 6 Z 0 EV d{}", maxs, &hex(&b)[1..]));
        // prefix split across chunks
        out.push(format!("dec resp200 none {} 8192 8 Z 0 EV d{} p d{}", maxs, &hex(&b[..9])[1..], &hex(&b[9..])[1..]));
    }
    // more oversize announcements with nothing behind them (seed C06d, mutant K2: a reservation made
    // BEFORE the limit test shows only in the allocation observer): every limit class x declared
    // lengths well over the observer's slack x 0..2 valid messages in front x prefix cut or whole
    for max in [None, Some(0usize), Some(5), Some(1024), Some(65536), Some(1 << 20)] {
        for len in [0x0080_0000u32, 0x0400_0000, 0x4000_0000, 0xFFFF_FFFE] {
            if let Some(m) = max {
                if (len as usize) <= m { continue; }
            } else if len <= 0x0040_0000 { continue; }
            for k in 0..3usize {
                let mut b = Vec::new();
                for i in 0..k {
                    b.extend(frame(0, &[i as u8 + 1; 3][..(i + 1).min(3)]));
                }
                let cut = b.len() + 1 + (len as usize % 4);
                b.push(0);
                b.extend_from_slice(&len.to_be_bytes());
                let maxs = max.map(|m: usize| m.to_string()).unwrap_or_else(|| "none".into());
                let dir = if k % 2 == 0 { "req" } else { "resp200" };
                out.push(format!("dec {} none {} {} 5 Z 0 EV d{}", dir, maxs, [8192usize, 0, 16][k], &hex(&b)[1..]));
                out.push(format!("dec {} none {} 1024 6 Z 0 EV d{} p d{}", dir, maxs, &hex(&b[..cut])[1..], &hex(&b[cut..])[1..]));
            }
        }
    }
    // rev1 S2: `Encoder::encode` fails on the second item after writing part of it — nothing of
    // that item (neither the reserved 5-byte header nor the partial payload) may be sent, the first
    // item is still delivered, then INTERNAL
    for server in [true, false] {
        for comp in [None, Some(tonic::codec::CompressionEncoding::Gzip)] {
            for yield_thr in [0usize, 32768] {
                for k in [0usize, 2, 3] {
                    out.push(
                        EncCase { server, comp, disable: false, yield_thr, buf_size: 8192, max: None,
                                  evs: vec!["i0102".into(), format!("f{}.ee0304", k), "i05".into()],
                                  items: vec![vec![1, 2], vec![5]], extra_polls: 4 }.line(),
                    );
                }
            }
        }
    }
    let n = if thorough { 30000 } else { 2500 };
    for _ in 0..n {
        let e = rng.chance(1, 3);
        out.push(gen_enc_case(rng, e, true).line());
    }
    for _ in 0..n {
        let mut c = gen_dec_valid(rng, true);
        if c.dir == "empty" {
            c.dir = "req".into();
        }
        out.push(c.line());
    }
    // compressible messages, the limit between their compressed and uncompressed size (seed C01g)
    for i in 0..(if thorough { 300 } else { 12 }) {
        let e = [tonic::codec::CompressionEncoding::Gzip, tonic::codec::CompressionEncoding::Deflate, tonic::codec::CompressionEncoding::Zstd][i % 3];
        out.push(gen_dec_compressible(rng, e, i < 3 && (thorough || i == 0)).line());
    }
    // one frame above 64 KiB with more frames behind it in the same chunk (seed C07f), limits at and above it
    for _ in 0..(if thorough { 400 } else { 40 }) {
        out.push(gen_dec_big(rng, false).line());
    }
    out.extend(gen_limits(tier, rng));
    // ---- dimensions added by the proactive audit (c06_x.rs)
    x::gen_dec_dims(&mut out);
    x::gen_enc_dims(&mut out);
    x::gen_dech(tier, rng, &mut out);
    let gen_lines: Vec<String> = out.iter().filter(|l| l.starts_with("lim.gen ")).cloned().collect();
    x::gen_lim_genp(&gen_lines, rng, &mut out);
    x::gen_lim_seq(tier, rng, &mut out);
    out
}

pub fn execute(case: &str) -> String {
    let t: Vec<&str> = case.split(' ').collect();
    match t[0] {
        "lim.srv" => exec_lim_srv(&t),
        "lim.cli" => exec_lim_cli(&t),
        "lim.gen" => exec_lim_gen(&t),
        "lim.genp" => x::exec_lim_genp(&t),
        "lim.seq" => x::exec_lim_seq(&t),
        "dech" => x::exec_dech(&t),
        _ => crate::framing::execute(case),
    }
}

// ===== limits as they travel from the Grpc configuration down to the codec =====
//   lim.srv <b|a><u|s|c|d> <enc limit|-> <dec limit|-> <request len> <response len>
//        b = builder methods, a = apply_max_message_size_config;
//        u unary, s server-streaming, c client-streaming, d bidirectional
//        observed: <grpc-status code> h<handler runs> m<request messages the handler received>
//   lim.cli <f|c> <enc limit|-> <dec limit|-> <request len> <response len>
//        f = fresh client, c = a clone of the configured client
//        observed: ok | err<code>, s<requests whose body the transport read completely>
use crate::c03::{drain_body, RawCodec};
use bytes::Bytes;
use http_body::Frame;
use std::future::Future;
use std::pin::Pin;
use std::sync::atomic::{AtomicUsize, Ordering};
use std::sync::Arc;
use std::task::{Context, Poll};
use tonic::{Request, Response, Status};

fn opt(s: &str) -> Option<usize> {
    if s == "-" {
        None
    } else {
        Some(s.parse().unwrap())
    }
}

fn blob(n: usize) -> Vec<u8> {
    (0..n).map(|i| (i % 251) as u8 | 1).collect()
}

#[derive(Clone)]
struct Reply(usize, Arc<AtomicUsize>, Arc<AtomicUsize>);

type RespStream = Pin<Box<dyn tokio_stream::Stream<Item = Result<Vec<u8>, Status>> + Send>>;

impl tonic::server::ServerStreamingService<Vec<u8>> for Reply {
    type Response = Vec<u8>;
    type ResponseStream = RespStream;
    type Future = Pin<Box<dyn Future<Output = Result<Response<RespStream>, Status>> + Send>>;
    fn call(&mut self, _req: Request<Vec<u8>>) -> Self::Future {
        self.1.fetch_add(1, Ordering::SeqCst);
        self.2.fetch_add(1, Ordering::SeqCst);
        let n = self.0;
        Box::pin(async move { Ok(Response::new(Box::pin(tokio_stream::iter(vec![Ok(blob(n))])) as RespStream)) })
    }
}

impl tonic::server::ClientStreamingService<Vec<u8>> for Reply {
    type Response = Vec<u8>;
    type Future = Pin<Box<dyn Future<Output = Result<Response<Vec<u8>>, Status>> + Send>>;
    fn call(&mut self, req: Request<tonic::Streaming<Vec<u8>>>) -> Self::Future {
        self.1.fetch_add(1, Ordering::SeqCst);
        let n = self.0;
        let got = self.2.clone();
        Box::pin(async move {
            let mut s = req.into_inner();
            while let Some(_m) = s.message().await? {
                got.fetch_add(1, Ordering::SeqCst);
            }
            Ok(Response::new(blob(n)))
        })
    }
}

impl tonic::server::StreamingService<Vec<u8>> for Reply {
    type Response = Vec<u8>;
    type ResponseStream = RespStream;
    type Future = Pin<Box<dyn Future<Output = Result<Response<RespStream>, Status>> + Send>>;
    fn call(&mut self, req: Request<tonic::Streaming<Vec<u8>>>) -> Self::Future {
        self.1.fetch_add(1, Ordering::SeqCst);
        let n = self.0;
        let got = self.2.clone();
        Box::pin(async move {
            let mut s = req.into_inner();
            while let Some(_m) = s.message().await? {
                got.fetch_add(1, Ordering::SeqCst);
            }
            Ok(Response::new(Box::pin(tokio_stream::iter(vec![Ok(blob(n))])) as RespStream))
        })
    }
}
impl tonic::server::UnaryService<Vec<u8>> for Reply {
    type Response = Vec<u8>;
    type Future = Pin<Box<dyn Future<Output = Result<Response<Vec<u8>>, Status>> + Send>>;
    fn call(&mut self, _req: Request<Vec<u8>>) -> Self::Future {
        self.1.fetch_add(1, Ordering::SeqCst);
        self.2.fetch_add(1, Ordering::SeqCst);
        let n = self.0;
        Box::pin(async move { Ok(Response::new(blob(n))) })
    }
}

fn exec_lim_srv(t: &[&str]) -> String {
    let rt = paused_rt();
    rt.block_on(async move {
        let (e, d) = (opt(t[2]), opt(t[3]));
        let mut grpc = tonic::server::Grpc::new(RawCodec);
        if t[1].starts_with('a') {
            grpc = grpc.apply_max_message_size_config(d, e);
        } else {
            if let Some(l) = d {
                grpc = grpc.max_decoding_message_size(l);
            }
            if let Some(l) = e {
                grpc = grpc.max_encoding_message_size(l);
            }
        }
        let runs = Arc::new(AtomicUsize::new(0));
        let got = Arc::new(AtomicUsize::new(0));
        let body = frame(0, &blob(t[4].parse().unwrap()));
        let mut req = http::Request::new(tonic::body::Body::new(http_body_util::Full::new(Bytes::from(body))));
        *req.method_mut() = http::Method::POST;
        let svc = Reply(t[5].parse().unwrap(), runs.clone(), got.clone());
        let resp = match &t[1][1..] {
            "u" => grpc.unary(svc, req).await,
            "s" => grpc.server_streaming(svc, req).await,
            "c" => grpc.client_streaming(svc, req).await,
            _ => grpc.streaming(svc, req).await,
        };
        let (parts, body) = resp.into_parts();
        let (frames, _) = drain_body(body).await;
        let code = parts
            .headers
            .get("grpc-status")
            .map(|v| String::from_utf8_lossy(v.as_bytes()).to_string())
            .or_else(|| frames.iter().find(|f| f.starts_with('t')).map(|f| f[1..].to_string()))
            .unwrap_or_else(|| "-".into());
        format!("{} h{} m{}", code, runs.load(Ordering::SeqCst), got.load(Ordering::SeqCst))
    })
}

#[derive(Clone)]
struct Echo(usize, Arc<AtomicUsize>);
impl tower::Service<http::Request<tonic::body::Body>> for Echo {
    type Response = http::Response<tonic::body::Body>;
    type Error = Status;
    type Future = Pin<Box<dyn Future<Output = Result<Self::Response, Status>> + Send>>;
    fn poll_ready(&mut self, _cx: &mut Context<'_>) -> Poll<Result<(), Status>> {
        Poll::Ready(Ok(()))
    }
    fn call(&mut self, req: http::Request<tonic::body::Body>) -> Self::Future {
        let n = self.0;
        let sent = self.1.clone();
        Box::pin(async move {
            use http_body_util::BodyExt;
            let mut body = req.into_body();
            while let Some(f) = body.frame().await {
                // a failing request body aborts the call, as a real transport would
                f?;
            }
            sent.fetch_add(1, Ordering::SeqCst);
            let mut tr = http::HeaderMap::new();
            tr.insert("grpc-status", "0".parse().unwrap());
            let frames: Vec<Result<Frame<Bytes>, Status>> = vec![Ok(Frame::data(Bytes::from(frame(0, &blob(n))))), Ok(Frame::trailers(tr))];
            let mut resp = http::Response::new(tonic::body::Body::new(http_body_util::StreamBody::new(tokio_stream::iter(frames))));
            resp.headers_mut().insert("content-type", "application/grpc".parse().unwrap());
            Ok(resp)
        })
    }
}

fn exec_lim_cli(t: &[&str]) -> String {
    let rt = paused_rt();
    rt.block_on(async move {
        let (e, d) = (opt(t[2]), opt(t[3]));
        let sent = Arc::new(AtomicUsize::new(0));
        let mut grpc = tonic::client::Grpc::new(Echo(t[5].parse().unwrap(), sent.clone()));
        if let Some(l) = d {
            grpc = grpc.max_decoding_message_size(l);
        }
        if let Some(l) = e {
            grpc = grpc.max_encoding_message_size(l);
        }
        let mut grpc = if t[1] == "c" { grpc.clone() } else { grpc };
        grpc.ready().await.unwrap();
        let r = grpc.unary(Request::new(blob(t[4].parse().unwrap())), "/p.S/M".parse().unwrap(), RawCodec).await;
        format!("{} s{}", match r { Ok(_) => "ok".to_string(), Err(st) => format!("err{}", st.code() as i32) }, sent.load(Ordering::SeqCst))
    })
}

//   lim.gen <method j of pool service a.S> <client enc|-> <client dec|-> <server enc|-> <server dec|-> <n> Q <request wire len> R <response wire len>*
//        a GENERATED client (tonic-build) calls a GENERATED server directly; the four limits are set
//        through the generated builder methods.  observed: ok<#responses> | err<code>
fn exec_lim_gen(t: &[&str]) -> String {
    use crate::c10::pool::{self, Handler};
    let rt = paused_rt();
    rt.block_on(async move {
        let j: usize = t[1].parse().unwrap();
        let (ce, cd, se, sd) = (opt(t[2]), opt(t[3]), opt(t[4]), opt(t[5]));
        let n: usize = t[6].parse().unwrap();
        let mut srv = pool::p0::s_server::SServer::new(Handler::default());
        if let Some(l) = sd {
            srv = srv.max_decoding_message_size(l);
        }
        if let Some(l) = se {
            srv = srv.max_encoding_message_size(l);
        }
        let mut cli = pool::p0::s_client::SClient::new(srv);
        if let Some(l) = cd {
            cli = cli.max_decoding_message_size(l);
        }
        if let Some(l) = ce {
            cli = cli.max_encoding_message_size(l);
        }
        let arg = "x".repeat(n);
        let r: Result<usize, Status> = match j {
            0 => cli.m0(Request::new(arg)).await.map(|_| 1),
            3 => match cli.m3(Request::new(arg)).await {
                Ok(s) => pool::drain(s.into_inner()).await.map(|v| v.len()),
                Err(e) => Err(e),
            },
            4 => cli.m4(Request::new(tokio_stream::iter(vec![arg.clone(), arg]))).await.map(|_| 1),
            _ => match cli.m5(Request::new(tokio_stream::iter(vec![arg.clone(), arg]))).await {
                Ok(s) => pool::drain(s.into_inner()).await.map(|v| v.len()),
                Err(e) => Err(e),
            },
        };
        match r {
            Ok(k) => format!("ok{}", k),
            Err(st) => format!("err{}", st.code() as i32),
        }
    })
}

fn gen_lim_gen(rng: &mut Rng, out: &mut Vec<String>) {
    use prost::Message;
    let lims: Vec<Option<usize>> = vec![None, Some(0), Some(2), Some(3), Some(4), Some(5), Some(8)];
    for j in [0usize, 3, 4, 5] {
        for n in [0usize, 1, 2, 3, 6] {
            let total = if j >= 4 { 2 * n } else { n };
            let c = crate::c10::pool::resp_code(0, j, total);
            let rs: Vec<usize> = if j == 3 || j == 5 { vec![c.encoded_len(), (c + 1_000_000).encoded_len()] } else { vec![c.encoded_len()] };
            let q = "x".repeat(n).encoded_len();
            for _ in 0..12 {
                let pick = |rng: &mut Rng| *rng.pick(&lims);
                // mostly one limit at a time (the other three unset), sometimes all drawn
                let mut l = [None, None, None, None];
                if rng.chance(2, 3) {
                    l[rng.below(4) as usize] = pick(rng);
                } else {
                    for x in l.iter_mut() {
                        *x = pick(rng);
                    }
                }
                let tok = |x: Option<usize>| x.map(|v| v.to_string()).unwrap_or("-".into());
                out.push(format!("lim.gen {} {} {} {} {} {} Q {} R {}", j, tok(l[0]), tok(l[1]), tok(l[2]), tok(l[3]), n, q, rs.iter().map(|r| r.to_string()).collect::<Vec<_>>().join(" ")));
            }
        }
    }
}

pub fn gen_limits(tier: &str, rng: &mut Rng) -> Vec<String> {
    let mut out = Vec::new();
    gen_lim_gen(rng, &mut out);
    let lims: Vec<Option<usize>> = vec![None, Some(0), Some(1), Some(5), Some(1024)];
    for side in ["lim.srv", "lim.cli"] {
        for mode in if side == "lim.srv" { vec!["bu", "au", "bs", "bc", "ac", "bd"] } else { vec!["f", "c"] } {
            for e in &lims {
                for d in &lims {
                    let mut lens = vec![0usize, 1, 6];
                    for l in [e, d].into_iter().flatten() {
                        for x in [l.saturating_sub(1), *l, l + 1] {
                            lens.push(x);
                        }
                    }
                    lens.sort();
                    lens.dedup();
                    for rq in &lens {
                        for rs in &lens {
                            if rng.chance(1, 3) || (*rq <= 6 && *rs <= 6) {
                                out.push(format!("{} {} {} {} {} {}", side, mode, e.map(|x| x.to_string()).unwrap_or("-".into()), d.map(|x| x.to_string()).unwrap_or("-".into()), rq, rs));
                            }
                        }
                    }
                }
            }
            // the 4 MiB default, exactly at and just over it
            for (rq, rs) in [(4 * 1024 * 1024, 1), (4 * 1024 * 1024 + 1, 1), (1, 4 * 1024 * 1024), (1, 4 * 1024 * 1024 + 1)] {
                out.push(format!("{} {} - - {} {}", side, mode, rq, rs));
            }
        }
    }
    let _ = tier;
    out
}
