//! C03 — responses SYNTHESISED by tonic (not encoded from a handler's answer): one case kind per
//! producer, every response captured whole (status line, headers, body polled past its end) and
//! judged by the Lean response oracle `Spec/GrpcResponse.lean`; the Lean model
//! (`Model/RecoverError.lean`, `Model/Interceptor.lean`) predicts each of them.
//!
//! case :=
//!   prod rec <new|layer> st <status>                    inner service: Err(Status)
//!   prod rec <via> box <depth> <status>                 Err(wrapper^depth(Status))
//!   prod rec <via> to | boxto <depth>                   Err(TimeoutExpired) / wrapped
//!   prod rec <via> gto <cfg ns|none> <client ns|none> <latency ns> <resp>
//!                                                       real GrpcTimeout around a sleeping service
//!   prod rec <via> conn <depth> <text>                  Err(wrapper^depth(ConnectError(text)))
//!   prod rec <via> h2 <reason> <display>                Err(h2::Error)            (top level)
//!   prod rec <via> boxh2 <depth> <reason>               Err(wrapper^depth(h2::Error)), depth ≥ 1
//!   prod rec <via> ok <resp>                            Ok(response): must pass through unchanged
//!   prod rec <via> other <depth> <text>                 an error with no status in it: stays Err
//!   prod fb routes <wrap> <k> <pool idx>* <path>        `Routes` fallback (no route for the path)
//!   prod fb method <direct|routes> <wrap> <pool idx> <path>   default arm of a generated server
//!   prod icpt <new|layer> <status>                      InterceptedService rejecting
//!   prod srv timeout <Server::timeout ns|none> <grpc-timeout ns|none> <handler latency ns>
//!   prod srv layer <depth> <status>                     Server::layer(layer failing with the status)
//!   prod srv path <k> <pool idx>* <path>                unknown path
//!   prod srv icpt <status>                              service wrapped in a rejecting interceptor
//!                      (`srv`: real transport::Server over a duplex pipe, raw hyper HTTP/2 client)
//! status := ctor code msg details src hdrs      hdrs := count (name value sens)*
//! resp   := http-status version hdrs body       body := nchunks chunk* ( notr | tr hdrs )
//!
//! observed := resp <http-status> <version> <hdrs> F ( d <hex> | t <hdrs> | n | e )*
//!           | err <display text>
//! (header lists sorted by name, per-name order kept; `srv`: the `date` header hyper adds is
//! dropped, the body is polled to its end only)
use super::RawCodec;
use crate::c10::pool;
use crate::common::*;
use crate::framing::frame;
use bytes::Bytes;
use http::{HeaderMap, HeaderName, HeaderValue};
use http_body::{Body as HttpBody, Frame, SizeHint};
use std::collections::VecDeque;
use std::convert::Infallible;
use std::future::Future;
use std::pin::Pin;
use std::sync::Arc;
use std::task::{Context, Poll};
use std::time::Duration;
use tonic::metadata::MetadataMap;
use tonic::service::interceptor::{InterceptedService, InterceptorLayer};
use tonic::service::{RecoverError, RecoverErrorLayer};
use tonic::transport::verif_hooks::GrpcTimeoutHook;
use tonic::{Code, Status};
use tower::{Service, ServiceExt};
use tower_layer::Layer;

type BoxError = Box<dyn std::error::Error + Send + Sync>;

// ---------------------------------------------------------------------------------------------
// case data

#[derive(Clone, Debug)]
pub struct H(pub Vec<(Vec<u8>, Vec<u8>, bool)>);

#[derive(Clone, Debug)]
pub struct St {
    ctor: u8,
    code: i32,
    msg: Vec<u8>,
    details: Vec<u8>,
    src: bool,
    md: H,
}

#[derive(Clone, Debug)]
pub struct BodyScript {
    chunks: Vec<Vec<u8>>,
    trailers: Option<H>,
}

#[derive(Clone, Debug)]
pub struct RespScript {
    status: u16,
    version: u8,
    hdrs: H,
    body: BodyScript,
}

fn r_h(h: &H) -> String {
    let mut s = h.0.len().to_string();
    for (n, v, f) in &h.0 {
        s.push_str(&format!(" {} {} {}", hex(n), hex(v), if *f { 1 } else { 0 }));
    }
    s
}
fn r_st(st: &St) -> String {
    format!("{} {} {} {} {} {}", st.ctor, st.code, hex(&st.msg), hex(&st.details), if st.src { 1 } else { 0 }, r_h(&st.md))
}
fn r_body(b: &BodyScript) -> String {
    let mut s = b.chunks.len().to_string();
    for c in &b.chunks {
        s.push(' ');
        s.push_str(&hex(c));
    }
    match &b.trailers {
        None => s.push_str(" notr"),
        Some(t) => {
            s.push_str(" tr ");
            s.push_str(&r_h(t));
        }
    }
    s
}
fn r_resp(r: &RespScript) -> String {
    format!("{} {} {} {}", r.status, r.version, r_h(&r.hdrs), r_body(&r.body))
}

struct Toks<'a> {
    t: Vec<&'a str>,
    i: usize,
}
impl<'a> Toks<'a> {
    fn next(&mut self) -> Option<&'a str> {
        let x = self.t.get(self.i).copied();
        self.i += 1;
        x
    }
    fn num<T: std::str::FromStr>(&mut self) -> Option<T> {
        self.next()?.parse().ok()
    }
    fn bytes(&mut self) -> Option<Vec<u8>> {
        unhex(self.next()?)
    }
    fn flag(&mut self) -> Option<bool> {
        match self.next()? {
            "0" => Some(false),
            "1" => Some(true),
            _ => None,
        }
    }
    fn opt_ns(&mut self) -> Option<Option<u128>> {
        let x = self.next()?;
        if x == "none" {
            Some(None)
        } else {
            x.parse().ok().map(Some)
        }
    }
    fn hdrs(&mut self) -> Option<H> {
        let n: usize = self.num()?;
        let mut v = Vec::new();
        for _ in 0..n {
            v.push((self.bytes()?, self.bytes()?, self.flag()?));
        }
        Some(H(v))
    }
    fn status(&mut self) -> Option<St> {
        Some(St { ctor: self.num()?, code: self.num()?, msg: self.bytes()?, details: self.bytes()?, src: self.flag()?, md: self.hdrs()? })
    }
    fn body(&mut self) -> Option<BodyScript> {
        let n: usize = self.num()?;
        let mut chunks = Vec::new();
        for _ in 0..n {
            chunks.push(self.bytes()?);
        }
        let trailers = match self.next()? {
            "notr" => None,
            "tr" => Some(self.hdrs()?),
            _ => return None,
        };
        Some(BodyScript { chunks, trailers })
    }
    fn resp(&mut self) -> Option<RespScript> {
        Some(RespScript { status: self.num()?, version: self.num()?, hdrs: self.hdrs()?, body: self.body()? })
    }
    fn idxs(&mut self) -> Option<Vec<usize>> {
        let k: usize = self.num()?;
        let mut v = Vec::new();
        for _ in 0..k {
            let i: usize = self.num()?;
            if i >= pool::POOL.len() {
                return None;
            }
            v.push(i);
        }
        Some(v)
    }
    fn done(&self) -> bool {
        self.i == self.t.len()
    }
}

// ---------------------------------------------------------------------------------------------
// building the real values

fn mk_headers(h: &H) -> Option<HeaderMap> {
    let mut m = HeaderMap::new();
    for (n, v, s) in &h.0 {
        let name = HeaderName::from_bytes(n).ok()?;
        let mut val = HeaderValue::from_bytes(v).ok()?;
        val.set_sensitive(*s);
        m.append(name, val);
    }
    Some(m)
}

fn show_headers(m: &HeaderMap) -> String {
    let mut keys: Vec<&HeaderName> = m.keys().collect();
    keys.sort_by(|a, b| a.as_str().as_bytes().cmp(b.as_str().as_bytes()));
    keys.dedup();
    let mut s = m.len().to_string();
    for k in keys {
        for v in m.get_all(k) {
            s.push_str(&format!(" {} {} {}", hex(k.as_str().as_bytes()), hex(v.as_bytes()), if v.is_sensitive() { 1 } else { 0 }));
        }
    }
    s
}

fn version_of(v: u8) -> Option<http::Version> {
    Some(match v {
        9 => http::Version::HTTP_09,
        10 => http::Version::HTTP_10,
        11 => http::Version::HTTP_11,
        2 => http::Version::HTTP_2,
        3 => http::Version::HTTP_3,
        _ => return None,
    })
}
fn version_tok(v: http::Version) -> &'static str {
    if v == http::Version::HTTP_09 {
        "9"
    } else if v == http::Version::HTTP_10 {
        "10"
    } else if v == http::Version::HTTP_11 {
        "11"
    } else if v == http::Version::HTTP_2 {
        "2"
    } else if v == http::Version::HTTP_3 {
        "3"
    } else {
        "?"
    }
}

fn mk_status(r: &St) -> Status {
    let msg = String::from_utf8(r.msg.clone()).expect("status message must be UTF-8");
    let md = MetadataMap::from_headers(mk_headers(&r.md).expect("status metadata"));
    let code = Code::from_i32(r.code);
    let mut st = match r.ctor % 4 {
        0 => {
            let mut st = if r.details.is_empty() { Status::new(code, msg) } else { Status::with_details(code, msg, Bytes::from(r.details.clone())) };
            *st.metadata_mut() = md;
            st
        }
        1 => Status::with_details_and_metadata(code, msg, Bytes::from(r.details.clone()), md),
        2 => {
            if r.details.is_empty() {
                Status::with_metadata(code, msg, md)
            } else {
                Status::with_details_and_metadata(code, msg, Bytes::from(r.details.clone()), md)
            }
        }
        _ => Status::with_details_and_metadata(code, msg, Bytes::from(r.details.clone()), md).clone(),
    };
    if r.src {
        st.set_source(Arc::new(std::io::Error::other("source")));
    }
    st
}

/// an error of a type tonic knows nothing about
#[derive(Debug)]
struct Plain(String);
impl std::fmt::Display for Plain {
    fn fmt(&self, f: &mut std::fmt::Formatter<'_>) -> std::fmt::Result {
        f.write_str(&self.0)
    }
}
impl std::error::Error for Plain {}

/// an error of an unknown type whose `source()` is another error
#[derive(Debug)]
struct Wrapper(BoxError);
impl std::fmt::Display for Wrapper {
    fn fmt(&self, f: &mut std::fmt::Formatter<'_>) -> std::fmt::Result {
        f.write_str("wrapper")
    }
}
impl std::error::Error for Wrapper {
    fn source(&self) -> Option<&(dyn std::error::Error + 'static)> {
        Some(self.0.as_ref())
    }
}

fn wrap(depth: usize, e: BoxError) -> BoxError {
    let mut e = e;
    for _ in 0..depth {
        e = Box::new(Wrapper(e));
    }
    e
}

/// A body that yields scripted frames, then `None` for ever.
pub struct ScriptBody {
    frames: VecDeque<Frame<Bytes>>,
    remaining_data: u64,
}
impl ScriptBody {
    fn new(b: &BodyScript) -> Option<Self> {
        let mut frames = VecDeque::new();
        let mut n = 0u64;
        for c in &b.chunks {
            n += c.len() as u64;
            frames.push_back(Frame::data(Bytes::from(c.clone())));
        }
        if let Some(t) = &b.trailers {
            frames.push_back(Frame::trailers(mk_headers(t)?));
        }
        Some(ScriptBody { frames, remaining_data: n })
    }
    fn empty() -> Self {
        ScriptBody { frames: VecDeque::new(), remaining_data: 0 }
    }
}
impl HttpBody for ScriptBody {
    type Data = Bytes;
    type Error = Infallible;
    fn poll_frame(mut self: Pin<&mut Self>, _cx: &mut Context<'_>) -> Poll<Option<Result<Frame<Bytes>, Self::Error>>> {
        match self.frames.pop_front() {
            Some(f) => {
                if let Some(d) = f.data_ref() {
                    self.remaining_data -= d.len() as u64;
                }
                Poll::Ready(Some(Ok(f)))
            }
            None => Poll::Ready(None),
        }
    }
    fn is_end_stream(&self) -> bool {
        self.frames.is_empty()
    }
    fn size_hint(&self) -> SizeHint {
        SizeHint::with_exact(self.remaining_data)
    }
}

fn mk_response(r: &RespScript) -> http::Response<ScriptBody> {
    let mut res = http::Response::new(ScriptBody::new(&r.body).expect("resp body"));
    *res.status_mut() = http::StatusCode::from_u16(r.status).expect("status");
    *res.version_mut() = version_of(r.version).expect("version");
    *res.headers_mut() = mk_headers(&r.hdrs).expect("resp headers");
    res
}

// ---------------------------------------------------------------------------------------------
// observing a response

/// `resp status version hdrs F frames…`; the body is polled to its end and `extra` more times.
async fn show_resp<B>(res: http::Response<B>, extra: usize, drop_date: bool) -> String
where
    B: HttpBody<Data = Bytes>,
{
    let (mut parts, body) = res.into_parts();
    if drop_date {
        parts.headers.remove("date");
    }
    let mut body = std::pin::pin!(body);
    let mut toks: Vec<String> = Vec::new();
    let mut after_end = 0usize;
    let mut polls = 0usize;
    loop {
        polls += 1;
        if polls > 500 {
            toks.push("busy-loop".into());
            break;
        }
        match std::future::poll_fn(|cx| body.as_mut().poll_frame(cx)).await {
            None => {
                toks.push("n".into());
                if after_end >= extra {
                    break;
                }
                after_end += 1;
            }
            Some(Err(_)) => {
                toks.push("e".into());
                break;
            }
            Some(Ok(f)) => {
                if f.is_data() {
                    toks.push(format!("d {}", hex(&f.into_data().ok().unwrap())));
                } else if f.is_trailers() {
                    toks.push(format!("t {}", show_headers(&f.into_trailers().ok().unwrap())));
                } else {
                    toks.push("unknown-frame".into());
                }
            }
        }
    }
    format!("resp {} {} {} F {}", parts.status.as_u16(), version_tok(parts.version), show_headers(&parts.headers), toks.join(" "))
}

fn dur(ns: u128) -> Duration {
    Duration::new((ns / 1_000_000_000) as u64, (ns % 1_000_000_000) as u32)
}

const WATCHDOG: Duration = Duration::from_secs(1_000_000);

// ---------------------------------------------------------------------------------------------
// rec: RecoverError around a scripted service

type Make = Arc<dyn Fn() -> Result<http::Response<ScriptBody>, BoxError> + Send + Sync>;

async fn drive_rec<S, B>(mut svc: S, req: http::Request<()>) -> String
where
    S: Service<http::Request<()>, Response = http::Response<B>, Error = BoxError>,
    B: HttpBody<Data = Bytes>,
{
    let fut = async {
        let svc = match svc.ready().await {
            Ok(s) => s,
            Err(e) => return format!("not-ready {}", hex(e.to_string().as_bytes())),
        };
        match svc.call(req).await {
            Ok(res) => show_resp(res, 2, false).await,
            Err(e) => format!("err {}", hex(e.to_string().as_bytes())),
        }
    };
    match tokio::time::timeout(WATCHDOG, fut).await {
        Ok(s) => s,
        Err(_) => "hang".into(),
    }
}

fn exec_rec(t: &mut Toks) -> Option<String> {
    let via = t.next()?;
    let kind = t.next()?;
    let mut latency: u128 = 0;
    let mut gto: Option<(Option<u128>, Option<u128>)> = None;
    let make: Make = match kind {
        "st" => {
            let st = t.status()?;
            Arc::new(move || Err(Box::new(mk_status(&st)) as BoxError))
        }
        "box" => {
            let d: usize = t.num()?;
            let st = t.status()?;
            Arc::new(move || Err(wrap(d, Box::new(mk_status(&st)))))
        }
        "to" => Arc::new(|| Err(Box::new(tonic::TimeoutExpired(())) as BoxError)),
        "boxto" => {
            let d: usize = t.num()?;
            Arc::new(move || Err(wrap(d, Box::new(tonic::TimeoutExpired(())))))
        }
        "gto" => {
            let cfg = t.opt_ns()?;
            let client = t.opt_ns()?;
            latency = t.num()?;
            gto = Some((cfg, client));
            let r = t.resp()?;
            Arc::new(move || Ok(mk_response(&r)))
        }
        "conn" => {
            let d: usize = t.num()?;
            let text = String::from_utf8(t.bytes()?).ok()?;
            Arc::new(move || Err(wrap(d, Box::new(tonic::ConnectError(Box::new(Plain(text.clone())))))))
        }
        "h2" => {
            let r: u32 = t.num()?;
            let _display = t.bytes()?;
            Arc::new(move || Err(Box::new(h2::Error::from(h2::Reason::from(r))) as BoxError))
        }
        "boxh2" => {
            let d: usize = t.num()?;
            let r: u32 = t.num()?;
            Arc::new(move || Err(wrap(d, Box::new(h2::Error::from(h2::Reason::from(r))))))
        }
        "ok" => {
            let r = t.resp()?;
            Arc::new(move || Ok(mk_response(&r)))
        }
        "other" => {
            let d: usize = t.num()?;
            let text = String::from_utf8(t.bytes()?).ok()?;
            Arc::new(move || Err(wrap(d, Box::new(Plain(text.clone())))))
        }
        _ => return None,
    };
    if !t.done() {
        return None;
    }
    let rt = paused_rt();
    Some(rt.block_on(async move {
        let inner = tower::service_fn(move |_req: http::Request<()>| {
            let make = make.clone();
            async move {
                if latency > 0 {
                    tokio::time::sleep(dur(latency)).await;
                }
                make()
            }
        });
        let mut req = http::Request::new(());
        match gto {
            Some((cfg, client)) => {
                if let Some(c) = client {
                    let mut treq = tonic::Request::new(());
                    treq.set_timeout(dur(c));
                    *req.headers_mut() = treq.metadata().clone().into_headers();
                }
                let timed = GrpcTimeoutHook::new(inner, cfg.map(dur));
                if via == "layer" {
                    drive_rec(RecoverErrorLayer::new().layer(timed), req).await
                } else {
                    drive_rec(RecoverError::new(timed), req).await
                }
            }
            None => {
                if via == "layer" {
                    drive_rec(RecoverErrorLayer::new().layer(inner), req).await
                } else {
                    drive_rec(RecoverError::new(inner), req).await
                }
            }
        }
    }))
}

// ---------------------------------------------------------------------------------------------
// fb: Routes fallback, default arm of a generated server

fn grpc_request(target: &str) -> Option<http::Request<tonic::body::Body>> {
    let uri: http::Uri = target.parse().ok()?;
    let body = tonic::body::Body::new(http_body_util::Full::new(Bytes::from(frame(0, &[1, 2, 3]))));
    http::Request::builder()
        .method("POST")
        .uri(uri)
        .version(http::Version::HTTP_2)
        .header("content-type", "application/grpc")
        .header("te", "trailers")
        .body(body)
        .ok()
}

async fn call_direct<S>(mut s: S, req: http::Request<tonic::body::Body>) -> String
where
    S: Service<http::Request<tonic::body::Body>, Response = http::Response<tonic::body::Body>, Error = Infallible>,
{
    match s.ready().await {
        Ok(s) => match s.call(req).await {
            Ok(res) => show_resp(res, 2, false).await,
            Err(e) => match e {},
        },
        Err(e) => match e {},
    }
}

/// pool services that can be called without a router (their generated types are named here)
pub const DIRECT: [usize; 4] = [0, 1, 8, 10];

async fn direct(i: usize, h: pool::Handler, req: http::Request<tonic::body::Body>) -> Option<String> {
    Some(match i {
        0 => call_direct(pool::p0::s_server::SServer::new(h), req).await,
        1 => call_direct(pool::p1::sv_server::SvServer::new(h), req).await,
        8 => call_direct(pool::p8::svc_server::SvcServer::new(h), req).await,
        10 => call_direct(pool::p10::health_server::HealthServer::new(h), req).await,
        _ => return None,
    })
}

fn exec_fb(t: &mut Toks) -> Option<String> {
    let kind = t.next()?;
    let (direct_call, wrap, reg, path) = match kind {
        "routes" => {
            let w = pool::Wrap::parse(t.next()?)?;
            let reg = t.idxs()?;
            (false, w, reg, String::from_utf8(t.bytes()?).ok()?)
        }
        "method" => {
            let via = t.next()?;
            let w = pool::Wrap::parse(t.next()?)?;
            let i: usize = t.num()?;
            if i >= pool::POOL.len() {
                return None;
            }
            (via == "direct", w, vec![i], String::from_utf8(t.bytes()?).ok()?)
        }
        _ => return None,
    };
    if !t.done() {
        return None;
    }
    let req = grpc_request(&path)?;
    if req.uri().path() != path {
        return Some("uri-path-differs".into());
    }
    let h = pool::Handler::default();
    let rt = paused_rt();
    let out = rt.block_on(async {
        if direct_call {
            direct(reg[0], h.clone(), req).await
        } else {
            let mut r = pool::Reg::new("routes")?;
            for &i in &reg {
                pool::add(&mut r, i, wrap, h.clone());
            }
            match r.finish() {
                pool::Built::Routes(routes) => Some(call_direct(routes, req).await),
                _ => None,
            }
        }
    })?;
    // a handler that ran means the path was not an unknown one: not a case of this kind
    if h.events().iter().any(|e| matches!(e, pool::Ev::Hit(..))) {
        return Some("handler-ran".into());
    }
    Some(out)
}

// ---------------------------------------------------------------------------------------------
// icpt: InterceptedService rejecting

fn exec_icpt(t: &mut Toks) -> Option<String> {
    let via = t.next()?;
    let st = t.status()?;
    if !t.done() {
        return None;
    }
    let rt = paused_rt();
    Some(rt.block_on(async move {
        let inner = tower::service_fn(|_req: http::Request<()>| async { Ok::<_, Infallible>(http::Response::new(ScriptBody::empty())) });
        let f = move |_r: tonic::Request<()>| -> Result<tonic::Request<()>, Status> { Err(mk_status(&st)) };
        let res = if via == "layer" {
            InterceptorLayer::new(f).layer(inner).oneshot(http::Request::new(())).await
        } else {
            InterceptedService::new(inner, f).oneshot(http::Request::new(())).await
        };
        match res {
            Ok(res) => show_resp(res, 2, false).await,
            Err(e) => match e {},
        }
    }))
}

// ---------------------------------------------------------------------------------------------
// srv: the real transport::Server over a duplex pipe, observed by a raw HTTP/2 client

#[derive(Clone)]
struct SleepSvc(u128);
impl tonic::server::NamedService for SleepSvc {
    const NAME: &'static str = "verif.Sleep";
}
struct SleepUnary(u128);
impl tonic::server::UnaryService<Vec<u8>> for SleepUnary {
    type Response = Vec<u8>;
    type Future = Pin<Box<dyn Future<Output = Result<tonic::Response<Vec<u8>>, Status>> + Send>>;
    fn call(&mut self, _r: tonic::Request<Vec<u8>>) -> Self::Future {
        let l = self.0;
        Box::pin(async move {
            tokio::time::sleep(dur(l)).await;
            Ok(tonic::Response::new(vec![7]))
        })
    }
}
impl Service<http::Request<tonic::body::Body>> for SleepSvc {
    type Response = http::Response<tonic::body::Body>;
    type Error = Infallible;
    type Future = Pin<Box<dyn Future<Output = Result<Self::Response, Self::Error>> + Send>>;
    fn poll_ready(&mut self, _cx: &mut Context<'_>) -> Poll<Result<(), Self::Error>> {
        Poll::Ready(Ok(()))
    }
    fn call(&mut self, req: http::Request<tonic::body::Body>) -> Self::Future {
        let l = self.0;
        Box::pin(async move {
            let mut grpc = tonic::server::Grpc::new(RawCodec);
            Ok(grpc.unary(SleepUnary(l), req).await)
        })
    }
}

/// a tower layer whose service fails every call with the scripted status (wrapped `depth` times)
#[derive(Clone)]
struct FailLayer(Arc<St>, usize);
#[derive(Clone)]
struct FailSvc<S> {
    _inner: S,
    st: Arc<St>,
    depth: usize,
}
impl<S> Layer<S> for FailLayer {
    type Service = FailSvc<S>;
    fn layer(&self, inner: S) -> FailSvc<S> {
        FailSvc { _inner: inner, st: self.0.clone(), depth: self.1 }
    }
}
impl<S, R> Service<R> for FailSvc<S>
where
    S: Service<R>,
{
    type Response = S::Response;
    type Error = BoxError;
    type Future = std::future::Ready<Result<S::Response, BoxError>>;
    fn poll_ready(&mut self, _cx: &mut Context<'_>) -> Poll<Result<(), BoxError>> {
        Poll::Ready(Ok(()))
    }
    fn call(&mut self, _req: R) -> Self::Future {
        std::future::ready(Err(wrap(self.depth, Box::new(mk_status(&self.st)))))
    }
}

async fn raw_client(cio: tokio::io::DuplexStream, target: String, grpc_timeout: Option<u128>) -> String {
    let fut = async {
        let (mut send, conn) = match hyper::client::conn::http2::handshake(hyper_util::rt::TokioExecutor::new(), hyper_util::rt::TokioIo::new(cio)).await {
            Ok(x) => x,
            Err(e) => return format!("handshake-failed:{}", e).replace(' ', "_"),
        };
        tokio::spawn(async move {
            let _ = conn.await;
        });
        let mut b = http::Request::builder()
            .method("POST")
            .uri(target)
            .version(http::Version::HTTP_2)
            .header("content-type", "application/grpc")
            .header("te", "trailers");
        if let Some(c) = grpc_timeout {
            let mut treq = tonic::Request::new(());
            treq.set_timeout(dur(c));
            if let Some(v) = treq.metadata().get("grpc-timeout") {
                b = b.header("grpc-timeout", v.as_encoded_bytes());
            }
        }
        let req = match b.body(http_body_util::Full::new(Bytes::from(frame(0, &[1])))) {
            Ok(r) => r,
            Err(_) => return "bad-request".into(),
        };
        match send.send_request(req).await {
            Ok(res) => show_resp(res, 0, true).await,
            Err(e) => format!("transport-error:{:?}", e).replace(' ', "_"),
        }
    };
    match tokio::time::timeout(WATCHDOG, fut).await {
        Ok(s) => s,
        Err(_) => "hang".into(),
    }
}

fn one_conn(sio: tokio::io::DuplexStream) -> impl tokio_stream::Stream<Item = Result<tokio::io::DuplexStream, std::io::Error>> {
    tokio_stream::StreamExt::chain(tokio_stream::once(Ok::<_, std::io::Error>(sio)), tokio_stream::pending())
}

fn exec_srv(t: &mut Toks) -> Option<String> {
    let kind = t.next()?;
    enum K {
        Timeout(Option<u128>, Option<u128>, u128),
        Layer(usize, St),
        Path(Vec<usize>, String),
        Icpt(St),
    }
    let k = match kind {
        "timeout" => K::Timeout(t.opt_ns()?, t.opt_ns()?, t.num()?),
        "layer" => K::Layer(t.num()?, t.status()?),
        "path" => K::Path(t.idxs()?, String::from_utf8(t.bytes()?).ok()?),
        "icpt" => K::Icpt(t.status()?),
        _ => return None,
    };
    if !t.done() {
        return None;
    }
    let rt = paused_rt();
    Some(rt.block_on(async move {
        let (cio, sio) = tokio::io::duplex(1 << 16);
        let incoming = one_conn(sio);
        let sleep_target = "http://h/verif.Sleep/Unary".to_string();
        match k {
            K::Timeout(server, client, latency) => {
                let mut b = tonic::transport::Server::builder();
                if let Some(s) = server {
                    b = b.timeout(dur(s));
                }
                let router = b.add_service(SleepSvc(latency));
                tokio::spawn(async move {
                    let _ = router.serve_with_incoming(incoming).await;
                });
                raw_client(cio, sleep_target, client).await
            }
            K::Layer(depth, st) => {
                let router = tonic::transport::Server::builder().layer(FailLayer(Arc::new(st), depth)).add_service(SleepSvc(0));
                tokio::spawn(async move {
                    let _ = router.serve_with_incoming(incoming).await;
                });
                raw_client(cio, sleep_target, None).await
            }
            K::Path(reg, path) => {
                let h = pool::Handler::default();
                let mut r = pool::Reg::new("server").unwrap();
                for &i in &reg {
                    pool::add(&mut r, i, pool::Wrap::Probe, h.clone());
                }
                let pool::Built::Router(router) = r.finish() else { return "bad-case".to_string() };
                tokio::spawn(async move {
                    let _ = router.serve_with_incoming(incoming).await;
                });
                let out = raw_client(cio, format!("http://h{}", path), None).await;
                if h.events().iter().any(|e| matches!(e, pool::Ev::Hit(..))) {
                    return "handler-ran".to_string();
                }
                out
            }
            K::Icpt(st) => {
                let f = move |_r: tonic::Request<()>| -> Result<tonic::Request<()>, Status> { Err(mk_status(&st)) };
                let router = tonic::transport::Server::builder().add_service(InterceptedService::new(SleepSvc(0), f));
                tokio::spawn(async move {
                    let _ = router.serve_with_incoming(incoming).await;
                });
                raw_client(cio, sleep_target, None).await
            }
        }
    }))
}

pub fn execute(case: &str) -> String {
    let mut t = Toks { t: case.split(' ').collect(), i: 0 };
    if t.next() != Some("prod") {
        return "bad-case".into();
    }
    let r = match t.next() {
        Some("rec") => exec_rec(&mut t),
        Some("fb") => exec_fb(&mut t),
        Some("icpt") => exec_icpt(&mut t),
        Some("srv") => exec_srv(&mut t),
        _ => None,
    };
    r.unwrap_or_else(|| "bad-case".into())
}

// ---------------------------------------------------------------------------------------------
// generators

const NAMES: [&str; 22] = [
    "x-a", "x-b", "X-A", "content-type", "Content-Type", "grpc-status", "grpc-message", "grpc-status-details-bin", "te", "user-agent",
    "grpc-message-type", "trace-bin", "x-bin", "grpc-foo", "grpc-encoding", "authorization", "a", "content-length-x", "x-a", "x-trace-bin",
    "grpc-accept-encoding", "!#$%&'*+-.^_`|~0z",
];

fn gen_value(rng: &mut Rng) -> Vec<u8> {
    match rng.below(14) {
        0 => vec![],
        1 => b"v".to_vec(),
        2 => b"a b".to_vec(),
        3 => b"application/grpc".to_vec(),
        4 => b"text/html".to_vec(),
        5 => b"0".to_vec(),
        6 => b"12".to_vec(),
        7 => b"AAAA".to_vec(),
        8 => b"AA==".to_vec(),
        9 => b"%41%zz%".to_vec(),
        10 => vec![0x80, 0xff, 0xc3, 0xa9],
        11 => b"a\tb".to_vec(),
        12 => {
            let n = *rng.pick(&[255usize, 256, 300]);
            (0..n).map(|_| b'!' + rng.below(90) as u8).collect()
        }
        _ => {
            let n = rng.range(1, 12) as usize;
            (0..n)
                .map(|_| {
                    let b = rng.next() as u8;
                    if (b >= 32 && b != 127) || b == 9 {
                        b
                    } else {
                        b'.'
                    }
                })
                .collect()
        }
    }
}

fn gen_hdrs(rng: &mut Rng, max: u64, wire: bool) -> H {
    let n = match rng.below(6) {
        0 => 0,
        1 => 1,
        _ => rng.range(1, max.max(1)),
    };
    let mut v: Vec<(Vec<u8>, Vec<u8>, bool)> = Vec::new();
    for _ in 0..n {
        let name = if !v.is_empty() && rng.chance(1, 3) { rng.pick(&v).0.clone() } else { rng.pick(&NAMES).as_bytes().to_vec() };
        v.push((name, gen_value(rng), !wire && rng.chance(1, 6)));
    }
    H(v)
}

const MESSAGES: [&str; 16] = [
    "",
    "ok",
    "try later",
    "a b",
    "%",
    "%41",
    "100% sure?",
    "h\u{e9}llo \u{2713} \u{1F600}",
    "line1\nline2\r\ttab\u{0}nul",
    "\u{7f}del",
    "\"#<>`?{}",
    "~!$&'()*+,-./:;=@[\\]^_|",
    " ",
    "\u{80}\u{7ff}\u{800}\u{ffff}\u{10000}",
    "Timeout expired",
    "%%%",
];

fn gen_message(rng: &mut Rng) -> Vec<u8> {
    match rng.below(20) {
        0..=13 => rng.pick(&MESSAGES).as_bytes().to_vec(),
        14 => (0u8..128).map(|b| b as char).collect::<String>().into_bytes(),
        15 => "x".repeat(*rng.pick(&[255usize, 256, 1000])).into_bytes(),
        _ => {
            let n = rng.range(1, 10);
            let mut s = String::new();
            for _ in 0..n {
                let c = match rng.below(4) {
                    0 => char::from_u32(rng.below(128) as u32).unwrap(),
                    1 => char::from_u32(0x80 + rng.below(0x700) as u32).unwrap(),
                    2 => char::from_u32(0x800 + rng.below(0x5000) as u32).unwrap_or('x'),
                    _ => *rng.pick(&['%', ' ', '{', '}', 'a', 'Z', '0', '~']),
                };
                s.push(c);
            }
            s.into_bytes()
        }
    }
}

fn gen_details(rng: &mut Rng) -> Vec<u8> {
    match rng.below(10) {
        0..=3 => vec![],
        4 => vec![0],
        5 => vec![0xfb, 0xff],
        6 => vec![0xfb, 0xff, 0xbf],
        7 => vec![1, 2, 3, 4],
        _ => {
            let n = rng.range(1, 40) as usize;
            rng.bytes(n)
        }
    }
}

fn gen_status(rng: &mut Rng, wire: bool) -> St {
    let code = match rng.below(20) {
        0 => 17,
        1 => 99,
        _ => rng.below(17) as i32,
    };
    let md = if rng.chance(1, 2) { H(vec![]) } else { gen_hdrs(rng, 5, wire) };
    St { ctor: rng.below(4) as u8, code, msg: gen_message(rng), details: gen_details(rng), src: rng.chance(1, 5), md }
}

fn gen_body(rng: &mut Rng) -> BodyScript {
    let n = match rng.below(6) {
        0 => 0,
        1 => 1,
        _ => rng.range(1, 4),
    };
    let mut chunks = Vec::new();
    for _ in 0..n {
        let len = *rng.pick(&[0usize, 1, 4, 5, 6, 17]);
        chunks.push(rng.bytes(len));
    }
    let trailers = if rng.chance(1, 2) { Some(gen_hdrs(rng, 3, false)) } else { None };
    BodyScript { chunks, trailers }
}

fn gen_resp(rng: &mut Rng) -> RespScript {
    let status = *rng.pick(&[200u16, 200, 200, 204, 404, 500, 100, 302]);
    RespScript { status, version: *rng.pick(&[9u8, 10, 11, 2, 3]), hdrs: gen_hdrs(rng, 6, false), body: gen_body(rng) }
}

/// a well-formed gRPC answer of an inner service (one message, OK trailers)
fn grpc_ok_resp() -> RespScript {
    RespScript {
        status: 200,
        version: 11,
        hdrs: H(vec![(b"content-type".to_vec(), b"application/grpc".to_vec(), false)]),
        body: BodyScript { chunks: vec![frame(0, &[7])], trailers: Some(H(vec![(b"grpc-status".to_vec(), b"0".to_vec(), false)])) },
    }
}

fn full_name(i: usize) -> String {
    crate::c10::full_name(i)
}

/// a path that names no method of pool service `i` (but lies under its route)
fn unknown_method_path(rng: &mut Rng, i: usize) -> String {
    let (_, _, ms) = pool::POOL[i];
    let svc = full_name(i);
    for _ in 0..20 {
        let m = ms[rng.below(ms.len() as u64) as usize].0;
        let cand = match rng.below(8) {
            0 => format!("/{svc}/{m}x"),
            1 => format!("/{svc}/x{m}"),
            2 => format!("/{svc}/{m}/"),
            3 => format!("/{svc}/{m}/{m}"),
            4 => format!("/{svc}/Nope"),
            5 => format!("/{svc}/{}", m.to_ascii_lowercase()),
            6 => format!("/{svc}/{}", m.to_ascii_uppercase()),
            _ => format!("/{svc}/{m}.{m}"),
        };
        if !ms.iter().any(|(n, _)| format!("/{svc}/{n}") == cand) {
            return cand;
        }
    }
    format!("/{svc}/NoSuchMethod")
}

/// a path for which `Routes` holding the services `reg` has no route
fn unrouted_path(rng: &mut Rng, reg: &[usize]) -> String {
    let names: Vec<String> = reg.iter().map(|&i| full_name(i)).collect();
    for _ in 0..20 {
        let other = full_name(rng.below(pool::POOL.len() as u64) as usize);
        let some = if names.is_empty() { "x.Y".to_string() } else { rng.pick(&names).clone() };
        let cand = match rng.below(9) {
            0 => "/".to_string(),
            1 => format!("/{some}"),
            2 => format!("/{some}/"),
            3 => format!("/{other}/M"),
            4 => format!("/{some}x/M"),
            5 => format!("/x{some}/M"),
            6 => format!("/{some}.M"),
            7 => "/unknown.Service/Method".to_string(),
            _ => format!("/{}/M", some.to_ascii_uppercase()),
        };
        let routed = names.iter().any(|n| {
            let p = format!("/{n}/");
            cand.starts_with(&p) && cand.len() > p.len()
        });
        if !routed {
            return cand;
        }
    }
    "/".to_string()
}

fn gen_reg(rng: &mut Rng) -> Vec<usize> {
    // distinct advertised names only (two services with the same full name cannot share a router)
    let k = rng.below(4) as usize;
    let mut v: Vec<usize> = Vec::new();
    for _ in 0..k {
        let i = rng.below(pool::POOL.len() as u64) as usize;
        if !v.iter().any(|&j| full_name(j) == full_name(i)) {
            v.push(i);
        }
    }
    v
}

fn idx_tok(reg: &[usize]) -> String {
    let mut s = reg.len().to_string();
    for i in reg {
        s.push_str(&format!(" {}", i));
    }
    s
}

pub fn generate(tier: &str, rng: &mut Rng) -> Vec<String> {
    let thorough = tier == "thorough";
    let n = |q: usize, t: usize| if thorough { t } else { q };
    let ms = 1_000_000u128;
    let mut out: Vec<String> = Vec::new();
    let via = |rng: &mut Rng| if rng.chance(1, 2) { "new" } else { "layer" };

    // corpus: the responses seed C03c is about
    let try_later = St { ctor: 0, code: 14, msg: b"try later".to_vec(), details: vec![], src: false, md: H(vec![]) };
    out.push("prod rec new to".into());
    out.push(format!("prod rec new st {}", r_st(&try_later)));
    out.push(format!("prod rec layer gto {} none {} {}", 20 * ms, 50 * ms, r_resp(&grpc_ok_resp())));
    out.push(format!("prod srv timeout {} none {}", 20 * ms, 50 * ms));
    out.push(format!("prod srv layer 0 {}", r_st(&try_later)));
    // forged metadata cannot displace the protocol headers
    let forged = St {
        ctor: 1,
        code: 7,
        msg: b"no".to_vec(),
        details: vec![1],
        src: false,
        md: H(vec![
            (b"content-type".to_vec(), b"text/html".to_vec(), false),
            (b"grpc-status".to_vec(), b"0".to_vec(), false),
            (b"grpc-status".to_vec(), b"3".to_vec(), false),
            (b"x-a".to_vec(), b"1".to_vec(), false),
        ]),
    };
    out.push(format!("prod rec new box 2 {}", r_st(&forged)));
    out.push(format!("prod icpt new {}", r_st(&forged)));

    // (a) RecoverError
    for v in ["new", "layer"] {
        out.push(format!("prod rec {v} to"));
        for d in 1..=3 {
            out.push(format!("prod rec {v} boxto {d}"));
        }
        for r in (0u32..=14).chain([255u32, 0x7fff_ffff]) {
            let e = h2::Error::from(h2::Reason::from(r));
            out.push(format!("prod rec {v} h2 {r} {}", hex(e.to_string().as_bytes())));
        }
        for (d, r) in [(1, 8u32), (2, 0), (1, 7)] {
            out.push(format!("prod rec {v} boxh2 {d} {r}"));
        }
    }
    for code in 0..=18 {
        let st = St { ctor: (code % 4) as u8, code, msg: b"m".to_vec(), details: vec![], src: false, md: H(vec![]) };
        out.push(format!("prod rec new st {}", r_st(&st)));
    }
    for _ in 0..n(400, 6000) {
        out.push(format!("prod rec {} st {}", via(rng), r_st(&gen_status(rng, false))));
    }
    for _ in 0..n(150, 2000) {
        out.push(format!("prod rec {} box {} {}", via(rng), rng.range(1, 4), r_st(&gen_status(rng, false))));
    }
    // the real GrpcTimeout under RecoverError: (configured, caller's grpc-timeout, latency) strictly
    // inside / outside the shorter deadline
    let grid: Vec<Option<u128>> = vec![None, Some(20 * ms), Some(50 * ms), Some(1000 * ms)];
    for cfg in &grid {
        for cl in &grid {
            let mut lats: Vec<u128> = vec![0, 5 * ms, 5000 * ms];
            for t in [cfg, cl].into_iter().flatten() {
                lats.push(*t - 3 * ms);
                lats.push(*t + 3 * ms);
            }
            lats.sort();
            lats.dedup();
            for l in lats {
                if thorough || rng.chance(1, 2) {
                    out.push(format!("prod rec {} gto {} {} {} {}", via(rng), opt_tok(*cfg), opt_tok(*cl), l, r_resp(&grpc_ok_resp())));
                }
            }
        }
    }
    for _ in 0..n(30, 300) {
        let text = String::from_utf8(gen_message(rng)).unwrap();
        out.push(format!("prod rec {} conn {} {}", via(rng), rng.below(3), hex(text.as_bytes())));
    }
    for _ in 0..n(150, 2000) {
        out.push(format!("prod rec {} ok {}", via(rng), r_resp(&gen_resp(rng))));
    }
    for _ in 0..n(40, 400) {
        let text = String::from_utf8(gen_message(rng)).unwrap();
        out.push(format!("prod rec {} other {} {}", via(rng), rng.below(4), hex(text.as_bytes())));
    }

    // (b) Routes fallback / generated default arm
    for i in 0..pool::POOL.len() {
        let w = pool::Wrap::ALL[i % 4];
        out.push(format!("prod fb method routes {} {} {}", w.token(), i, hex(format!("/{}/NoSuchMethod", full_name(i)).as_bytes())));
    }
    for i in DIRECT {
        out.push(format!("prod fb method direct probe {} {}", i, hex(format!("/{}/NoSuchMethod", full_name(i)).as_bytes())));
        out.push(format!("prod fb method direct probe {} {}", i, hex(b"/")));
        out.push(format!("prod fb method direct probe {} {}", i, hex(b"/other.Service/M")));
    }
    for _ in 0..n(60, 600) {
        let i = rng.below(pool::POOL.len() as u64) as usize;
        let w = *rng.pick(&pool::Wrap::ALL);
        out.push(format!("prod fb method routes {} {} {}", w.token(), i, hex(unknown_method_path(rng, i).as_bytes())));
    }
    for _ in 0..n(30, 300) {
        let i = *rng.pick(&DIRECT);
        out.push(format!("prod fb method direct probe {} {}", i, hex(unknown_method_path(rng, i).as_bytes())));
    }
    for _ in 0..n(60, 600) {
        let reg = gen_reg(rng);
        let w = *rng.pick(&pool::Wrap::ALL);
        out.push(format!("prod fb routes {} {} {}", w.token(), idx_tok(&reg), hex(unrouted_path(rng, &reg).as_bytes())));
    }

    // (c) interceptor rejection
    for _ in 0..n(150, 2000) {
        out.push(format!("prod icpt {} {}", via(rng), r_st(&gen_status(rng, false))));
    }

    // (d) the real server
    let sgrid: Vec<Option<u128>> = vec![None, Some(20 * ms), Some(50 * ms)];
    for s in &sgrid {
        for c in &sgrid {
            let mut lats: Vec<u128> = vec![0, 5000 * ms];
            for t in [s, c].into_iter().flatten() {
                lats.push(*t - 3 * ms);
                lats.push(*t + 3 * ms);
            }
            lats.sort();
            lats.dedup();
            for l in lats {
                if [s, c].into_iter().flatten().any(|t| (*t as i128 - l as i128).abs() < 2 * ms as i128) {
                    continue;
                }
                if thorough || rng.chance(1, 2) {
                    out.push(format!("prod srv timeout {} {} {}", opt_tok(*s), opt_tok(*c), l));
                }
            }
        }
    }
    for _ in 0..n(0, 150) {
        let s = Some(rng.range(1, 60) as u128 * ms);
        let c = if rng.chance(1, 2) { None } else { Some(rng.range(1, 60) as u128 * ms) };
        let shortest = [s, c].into_iter().flatten().min().unwrap();
        let l = shortest + rng.range(3, 200) as u128 * ms;
        out.push(format!("prod srv timeout {} {} {}", opt_tok(s), opt_tok(c), l));
    }
    for _ in 0..n(20, 400) {
        out.push(format!("prod srv layer {} {}", rng.below(3), r_st(&gen_status(rng, true))));
    }
    for _ in 0..n(10, 150) {
        let reg = gen_reg(rng);
        out.push(format!("prod srv path {} {}", idx_tok(&reg), hex(unrouted_path(rng, &reg).as_bytes())));
    }
    for _ in 0..n(10, 200) {
        out.push(format!("prod srv icpt {}", r_st(&gen_status(rng, true))));
    }
    out
}
