//! C16 — grpc-web server layer (`tonic_web::GrpcWebLayer` / `GrpcWebService`), driven through its
//! public API with scripted request bodies and a scripted inner service.
//!
//! Case kinds (tokens; byte strings are `x`+hex, `none` = header absent):
//!   resp <accept|none> <ev>*          inner response body = events; observe the grpc-web response
//!   req  <content-type> <ev>*         request body = events; observe what the inner service gets
//!   kind <method> <ver> <ct|none> <accept|none>   the four `call` cases, fixed small bodies
//! events: `d <hex>` data frame, `t <n> (<name> <value>){n}` trailers frame, `e` error, `p` Pending.
//! observed frames: `d <hex>` | `t <n> …` (HeaderMap iteration order) | final `eos` / `err`.
#![allow(dead_code)]
use crate::common::*;
use bytes::Bytes;
use http::{HeaderMap, HeaderName, HeaderValue, Method, Request, Response, Version};
use http_body::{Body, Frame};
use std::collections::VecDeque;
use std::future::Future;
use std::pin::Pin;
use std::sync::{Arc, Mutex};
use std::task::{Context, Poll, Waker};
use tower_layer::Layer;
use tower_service::Service;

// ---------------------------------------------------------------------------------------------
// scripted bodies (shared with c17)

#[derive(Clone, Debug)]
pub enum Ev {
    Data(Vec<u8>),
    Trailers(Vec<(Vec<u8>, Vec<u8>)>),
    Err,
    Pending,
}

pub struct ScriptBody {
    pub evs: VecDeque<Ev>,
    /// number of `poll_frame` calls made after `Ready(None)` was returned
    pub after_end: Arc<Mutex<usize>>,
    ended: bool,
    /// the optional `http_body::Body` hints this body gives (taken from `BODY_HINTS` when it is built):
    /// bit 0 = `size_hint()` is exact (the data bytes still to come - trailers do not count, as for
    /// `Full` / `Empty` with `with_trailers`), bit 1 = `is_end_stream()` is true once nothing is left
    hints: u8,
}

thread_local! {
    /// hints for the scripted bodies built on this thread (set by the `resph` / `clh` case kinds; seed C16e:
    /// a body with an exact size of 0 and trailers still to come must not be taken for an empty body)
    pub static BODY_HINTS: std::cell::Cell<u8> = const { std::cell::Cell::new(0) };
}

impl ScriptBody {
    pub fn new(evs: Vec<Ev>) -> Self {
        ScriptBody { evs: evs.into(), after_end: Arc::new(Mutex::new(0)), ended: false, hints: BODY_HINTS.with(|h| h.get()) }
    }
}

pub fn header_map(pairs: &[(Vec<u8>, Vec<u8>)]) -> Option<HeaderMap> {
    let mut m = HeaderMap::new();
    for (k, v) in pairs {
        m.append(HeaderName::from_bytes(k).ok()?, HeaderValue::from_bytes(v).ok()?);
    }
    Some(m)
}

impl Body for ScriptBody {
    type Data = Bytes;
    type Error = tonic::Status;
    fn poll_frame(mut self: Pin<&mut Self>, cx: &mut Context<'_>) -> Poll<Option<Result<Frame<Bytes>, tonic::Status>>> {
        if self.ended {
            // `http_body::Body`: a body that has returned `None` must not be polled again - what happens then is the
            // body's business (a `StreamBody` over a non-fused stream panics, seed C17h).  The scripted body is such a
            // strict one: the poll is counted (the `ae` column) and, except in the as-found replay mode of C17, it
            // panics - a layer that forgets that its inner body has ended loses the status for its caller.
            static ASIS: std::sync::OnceLock<bool> = std::sync::OnceLock::new();
            let n = {
                let mut g = self.after_end.lock().unwrap();
                *g += 1;
                *g
            };
            if !*ASIS.get_or_init(|| std::env::var_os("VERIF_C17_ASIS").is_some()) {
                panic!("inner body polled after its end");
            }
            if n > 1000 {
                panic!("busy-loop");
            }
            return Poll::Ready(None);
        }
        match self.evs.pop_front() {
            None => {
                self.ended = true;
                Poll::Ready(None)
            }
            Some(Ev::Data(b)) => Poll::Ready(Some(Ok(Frame::data(Bytes::from(b))))),
            Some(Ev::Trailers(t)) => Poll::Ready(Some(Ok(Frame::trailers(header_map(&t).expect("valid trailers"))))),
            Some(Ev::Err) => Poll::Ready(Some(Err(tonic::Status::unavailable("scripted")))),
            Some(Ev::Pending) => {
                cx.waker().wake_by_ref();
                Poll::Pending
            }
        }
    }
    fn is_end_stream(&self) -> bool {
        self.hints & 2 != 0 && (self.ended || self.evs.is_empty())
    }
    fn size_hint(&self) -> http_body::SizeHint {
        if self.hints & 1 != 0 {
            let n: usize = self.evs.iter().map(|e| if let Ev::Data(b) = e { b.len() } else { 0 }).sum();
            http_body::SizeHint::with_exact(n as u64)
        } else {
            http_body::SizeHint::default()
        }
    }
}

/// Minimal executor with a waker DISCIPLINE: our scripted bodies wake the task before they return
/// `Pending`, so a plain poll loop suffices — but a `Pending` during which nobody woke the task is a
/// lost wake-up (a real executor would park the task forever) and is reported as a hang at once
/// (seed C17c: `return Poll::Pending` right after the inner body yielded data). A future that stays
/// Pending for 100 000 polls is reported as a hang too.
struct CountWaker(std::sync::atomic::AtomicUsize);
impl std::task::Wake for CountWaker {
    fn wake(self: Arc<Self>) {
        self.0.fetch_add(1, std::sync::atomic::Ordering::SeqCst);
    }
    fn wake_by_ref(self: &Arc<Self>) {
        self.0.fetch_add(1, std::sync::atomic::Ordering::SeqCst);
    }
}
pub fn block_on<F: Future>(f: F) -> Option<F::Output> {
    let mut f = Box::pin(f);
    let cw = Arc::new(CountWaker(std::sync::atomic::AtomicUsize::new(0)));
    let waker = Waker::from(cw.clone());
    let mut cx = Context::from_waker(&waker);
    for _ in 0..100_000 {
        let before = cw.0.load(std::sync::atomic::Ordering::SeqCst);
        if let Poll::Ready(v) = f.as_mut().poll(&mut cx) {
            return Some(v);
        }
        if cw.0.load(std::sync::atomic::Ordering::SeqCst) == before {
            return None;
        }
    }
    None
}

/// Drain a body the way a consumer does: poll until `None` or the first error.
pub async fn drain<B>(body: B) -> Vec<String>
where
    B: Body<Data = Bytes>,
{
    let mut body = Box::pin(body);
    let mut out = Vec::new();
    loop {
        let fr = std::future::poll_fn(|cx| body.as_mut().poll_frame(cx)).await;
        match fr {
            None => {
                out.push("eos".to_string());
                break;
            }
            Some(Err(_)) => {
                out.push("err".to_string());
                break;
            }
            Some(Ok(frame)) => match frame.into_data() {
                Ok(d) => {
                    out.push("d".into());
                    out.push(hex(&d));
                }
                Err(frame) => match frame.into_trailers() {
                    Ok(t) => render_trailers(&t, &mut out),
                    Err(_) => out.push("other".into()),
                },
            },
        }
        if out.len() > 200_000 {
            out.push("runaway".into());
            break;
        }
    }
    out
}

/// `t <n> name value …` in `HeaderMap::iter` order.
pub fn render_trailers(t: &HeaderMap, out: &mut Vec<String>) {
    out.push("t".into());
    out.push(t.len().to_string());
    for (k, v) in t.iter() {
        out.push(hex(k.as_str().as_bytes()));
        out.push(hex(v.as_bytes()));
    }
}

pub fn parse_evs(toks: &[&str]) -> Option<Vec<Ev>> {
    let mut evs = Vec::new();
    let mut i = 0;
    while i < toks.len() {
        match toks[i] {
            "d" => {
                evs.push(Ev::Data(unhex(toks.get(i + 1)?)?));
                i += 2;
            }
            "t" => {
                let n: usize = toks.get(i + 1)?.parse().ok()?;
                let mut ps = Vec::new();
                for j in 0..n {
                    ps.push((unhex(toks.get(i + 2 + 2 * j)?)?, unhex(toks.get(i + 3 + 2 * j)?)?));
                }
                header_map(&ps)?;
                evs.push(Ev::Trailers(ps));
                i += 2 + 2 * n;
            }
            "e" => {
                evs.push(Ev::Err);
                i += 1;
            }
            "p" => {
                evs.push(Ev::Pending);
                i += 1;
            }
            _ => return None,
        }
    }
    Some(evs)
}

pub fn render_evs(evs: &[Ev]) -> String {
    let mut out: Vec<String> = Vec::new();
    for e in evs {
        match e {
            Ev::Data(b) => {
                out.push("d".into());
                out.push(hex(b));
            }
            Ev::Trailers(t) => {
                out.push("t".into());
                out.push(t.len().to_string());
                for (k, v) in t {
                    out.push(hex(k));
                    out.push(hex(v));
                }
            }
            Ev::Err => out.push("e".into()),
            Ev::Pending => out.push("p".into()),
        }
    }
    out.join(" ")
}

// ---------------------------------------------------------------------------------------------
// scripted inner service

/// marker put into the request's `Extensions` by the caller
#[derive(Clone, PartialEq, Debug)]
struct Marker(u32);

#[derive(Default, Clone)]
struct Seen {
    called: bool,
    headers: Option<HeaderMap>,
    version: Option<Version>,
    method: Option<Method>,
    uri: Option<http::Uri>,
    ext: bool,
    frames: Vec<String>,
}

/// headers of the inner service's response: a repeated `content-type` (which `insert` must
/// replace as a whole) and a repeated custom name
pub const INNER_RESP_HEADERS: [(&str, &str); 4] = [("content-type", "application/grpc"), ("x-inner", "a"), ("content-type", "dup"), ("x-inner", "b")];

#[derive(Clone)]
struct Inner {
    seen: Arc<Mutex<Seen>>,
    resp_evs: Vec<Ev>,
}

impl Service<Request<tonic::body::Body>> for Inner {
    type Response = Response<ScriptBody>;
    type Error = std::convert::Infallible;
    type Future = Pin<Box<dyn Future<Output = Result<Self::Response, Self::Error>> + Send>>;
    fn poll_ready(&mut self, _: &mut Context<'_>) -> Poll<Result<(), Self::Error>> {
        Poll::Ready(Ok(()))
    }
    fn call(&mut self, req: Request<tonic::body::Body>) -> Self::Future {
        let seen = self.seen.clone();
        let resp_evs = self.resp_evs.clone();
        Box::pin(async move {
            let (parts, body) = req.into_parts();
            let frames = drain(body).await;
            {
                let mut s = seen.lock().unwrap();
                s.called = true;
                s.ext = parts.extensions.get::<Marker>() == Some(&Marker(7));
                s.headers = Some(parts.headers);
                s.version = Some(parts.version);
                s.method = Some(parts.method);
                s.uri = Some(parts.uri);
                s.frames = frames;
            }
            let mut res = Response::new(ScriptBody::new(resp_evs));
            for (k, v) in INNER_RESP_HEADERS {
                res.headers_mut().append(HeaderName::from_static(k), HeaderValue::from_static(v));
            }
            Ok(res)
        })
    }
}

fn opt_hv(tok: &str) -> Option<Option<HeaderValue>> {
    if tok == "none" {
        Some(None)
    } else {
        Some(Some(HeaderValue::from_bytes(&unhex(tok)?).ok()?))
    }
}

/// `<n> (name value)*`: all entries, stably sorted by name (per-name value order kept)
pub fn render_headers_sorted(h: &HeaderMap) -> String {
    let mut ps: Vec<(Vec<u8>, Vec<u8>)> = h.iter().map(|(k, v)| (k.as_str().as_bytes().to_vec(), v.as_bytes().to_vec())).collect();
    ps.sort_by(|a, b| a.0.cmp(&b.0));
    let mut out = vec![ps.len().to_string()];
    for (k, v) in ps {
        out.push(hex(&k));
        out.push(hex(&v));
    }
    out.join(" ")
}

struct CallOut {
    status: u16,
    resp_headers: HeaderMap,
    resp_frames: Vec<String>,
    seen: Seen,
}

struct CallIn {
    method: Method,
    version: Version,
    uri: http::Uri,
    ext: bool,
    headers: Vec<(Vec<u8>, Vec<u8>)>,
    req_evs: Vec<Ev>,
    resp_evs: Vec<Ev>,
}

fn run_call(c: CallIn) -> Option<CallOut> {
    let seen = Arc::new(Mutex::new(Seen::default()));
    let inner = Inner { seen: seen.clone(), resp_evs: c.resp_evs };
    let mut svc = tonic_web::GrpcWebLayer::new().layer(inner);
    let mut req = Request::new(ScriptBody::new(c.req_evs));
    *req.method_mut() = c.method;
    *req.version_mut() = c.version;
    *req.uri_mut() = c.uri;
    if c.ext {
        req.extensions_mut().insert(Marker(7));
    }
    *req.headers_mut() = header_map(&c.headers)?;
    let fut = svc.call(req);
    let res = block_on(fut)?.unwrap();
    let (parts, body) = res.into_parts();
    let frames = block_on(drain(body))?;
    let s = seen.lock().unwrap().clone();
    Some(CallOut { status: parts.status.as_u16(), resp_headers: parts.headers, resp_frames: frames, seen: s })
}

fn ver_of(tok: &str) -> Option<Version> {
    Some(match tok {
        "h09" => Version::HTTP_09,
        "h10" => Version::HTTP_10,
        "h11" => Version::HTTP_11,
        "h2" => Version::HTTP_2,
        "h3" => Version::HTTP_3,
        _ => return None,
    })
}

fn ver_tok(v: Version) -> &'static str {
    match v {
        Version::HTTP_09 => "h09",
        Version::HTTP_10 => "h10",
        Version::HTTP_11 => "h11",
        Version::HTTP_2 => "h2",
        Version::HTTP_3 => "h3",
        _ => "h?",
    }
}

const KIND_REQ: &[u8] = b"AAAA";
fn kind_resp() -> Vec<Ev> {
    vec![Ev::Data(vec![0, 0, 0, 0, 1, 7]), Ev::Trailers(vec![(b"grpc-status".to_vec(), b"0".to_vec())])]
}

/// headers the `req` cases send next to the content type
pub const REQ_EXTRA: [(&str, &str); 5] = [("content-length", "123"), ("te", "gzip"), ("accept-encoding", "br"), ("x-user", "a"), ("x-user", "b")];

// the kinds of the dimension audit (aC16): hints of the translated bodies, inner response heads, histories, real stacks
#[path = "c16_x.rs"]
mod x;

pub fn execute(case: &str) -> String {
    if let Some(o) = x::execute(case) {
        return o;
    }
    let t: Vec<&str> = case.split(' ').filter(|s| !s.is_empty()).collect();
    match t.as_slice() {
        // resph <hints> <acc> <evs..>: `resp` with an inner response body that gives size / end-of-stream hints
        ["resph", h, rest @ ..] => {
            let hints: u8 = h.parse().unwrap_or(0);
            BODY_HINTS.with(|c| c.set(hints));
            let line = format!("resp {}", rest.join(" "));
            let out = execute(&line);
            BODY_HINTS.with(|c| c.set(0));
            out
        }
        ["resp", acc, evs @ ..] => {
            let (Some(acc), Some(evs)) = (opt_hv(acc), parse_evs(evs)) else { return "bad-case".into() };
            let mut headers = vec![(b"content-type".to_vec(), b"application/grpc-web".to_vec())];
            if let Some(a) = acc {
                headers.push((b"accept".to_vec(), a.as_bytes().to_vec()));
            }
            let Some(o) = run_call(CallIn { method: Method::POST, version: Version::HTTP_11, uri: http::Uri::from_static("/"), ext: false, headers, req_evs: vec![], resp_evs: evs }) else {
                return "hang".into();
            };
            format!("{} h {} {}", o.status, render_headers_sorted(&o.resp_headers), o.resp_frames.join(" "))
        }
        ["req", ct, evs @ ..] => {
            let (Some(ct), Some(evs)) = (opt_hv(ct), parse_evs(evs)) else { return "bad-case".into() };
            let mut headers: Vec<(Vec<u8>, Vec<u8>)> = REQ_EXTRA.iter().map(|(k, v)| (k.as_bytes().to_vec(), v.as_bytes().to_vec())).collect();
            if let Some(ct) = ct {
                headers.push((b"content-type".to_vec(), ct.as_bytes().to_vec()));
            }
            let Some(o) = run_call(CallIn { method: Method::POST, version: Version::HTTP_11, uri: http::Uri::from_static("/"), ext: false, headers, req_evs: evs, resp_evs: vec![] }) else {
                return "hang".into();
            };
            if !o.seen.called {
                return format!("{} skipped", o.status);
            }
            format!("{} h {} | {}", o.status, render_headers_sorted(&o.seen.headers.unwrap()), o.seen.frames.join(" "))
        }
        // call <method> <ver> <uri> <ext 0|1> <n> (<name> <value>){n} <req ev>*
        ["call", m, ver, uri, ext, n, rest @ ..] => {
            let (Some(mb), Some(ub)) = (unhex(m), unhex(uri)) else { return "bad-case".into() };
            let Ok(method) = Method::from_bytes(&mb) else { return "bad-case".into() };
            let Ok(uri) = http::Uri::try_from(&ub[..]) else { return "bad-case".into() };
            let Some(version) = ver_of(ver) else { return "bad-case".into() };
            let Ok(n) = n.parse::<usize>() else { return "bad-case".into() };
            if rest.len() < 2 * n || !(*ext == "0" || *ext == "1") {
                return "bad-case".into();
            }
            let mut headers = Vec::new();
            for j in 0..n {
                let (Some(k), Some(v)) = (unhex(rest[2 * j]), unhex(rest[2 * j + 1])) else { return "bad-case".into() };
                // the case must name headers the way a HeaderMap stores them (lower case)
                if k.iter().any(|b| b.is_ascii_uppercase()) {
                    return "bad-case".into();
                }
                headers.push((k, v));
            }
            if header_map(&headers).is_none() {
                return "bad-case".into();
            }
            let Some(req_evs) = parse_evs(&rest[2 * n..]) else { return "bad-case".into() };
            let Some(o) = run_call(CallIn { method, version, uri, ext: *ext == "1", headers, req_evs, resp_evs: kind_resp() }) else {
                return "hang".into();
            };
            let resp = format!("rh {} {}", render_headers_sorted(&o.resp_headers), o.resp_frames.join(" "));
            if !o.seen.called {
                return format!("{} skipped {}", o.status, resp);
            }
            let s = o.seen;
            format!(
                "{} called {} {} {} {} h {} b {} | {}",
                o.status,
                hex(s.method.unwrap().as_str().as_bytes()),
                ver_tok(s.version.unwrap()),
                hex(s.uri.unwrap().to_string().as_bytes()),
                if s.ext { 1 } else { 0 },
                render_headers_sorted(&s.headers.unwrap()),
                s.frames.join(" "),
                resp
            )
        }
        _ => "bad-case".into(),
    }
}

// ---------------------------------------------------------------------------------------------
// generators

pub const B64: &[u8; 64] = b"ABCDEFGHIJKLMNOPQRSTUVWXYZabcdefghijklmnopqrstuvwxyz0123456789+/";

/// harness-side base64 (padded), independent of tonic's engine
pub fn b64(data: &[u8]) -> Vec<u8> {
    let mut out = Vec::new();
    for c in data.chunks(3) {
        let n = (c[0] as u32) << 16 | (*c.get(1).unwrap_or(&0) as u32) << 8 | *c.get(2).unwrap_or(&0) as u32;
        out.push(B64[(n >> 18) as usize & 63]);
        out.push(B64[(n >> 12) as usize & 63]);
        out.push(if c.len() > 1 { B64[(n >> 6) as usize & 63] } else { b'=' });
        out.push(if c.len() > 2 { B64[n as usize & 63] } else { b'=' });
    }
    out
}

pub fn frame(flag: u8, payload: &[u8]) -> Vec<u8> {
    let mut v = vec![flag];
    v.extend_from_slice(&(payload.len() as u32).to_be_bytes());
    v.extend_from_slice(payload);
    v
}

pub const SIZES: [usize; 16] = [0, 1, 2, 3, 4, 5, 6, 7, 8, 9, 11, 12, 13, 57, 255, 256];

pub fn gen_frames(rng: &mut Rng, max_frames: u64, big: bool) -> Vec<(u8, Vec<u8>)> {
    let n = rng.below(max_frames + 1);
    (0..n)
        .map(|_| {
            let sz = if big && rng.chance(1, 20) { rng.range(1000, 9000) as usize } else { *rng.pick(&SIZES[..if big { 16 } else { 13 }]) };
            let payload = match rng.below(4) {
                0 => vec![0u8; sz],
                1 => vec![0x80u8; sz], // looks like trailer flags
                2 => (0..sz).map(|i| i as u8).collect(),
                _ => rng.bytes(sz),
            };
            (rng.below(2) as u8, payload)
        })
        .collect()
}

pub fn frames_bytes(fs: &[(u8, Vec<u8>)]) -> Vec<u8> {
    fs.iter().flat_map(|(f, p)| frame(*f, p)).collect()
}

const NAMES: [&str; 9] = ["grpc-status", "grpc-message", "grpc-status-details-bin", "x", "x-a", "a", "content-type", "x-trace-bin", "zz"];
const VALUES: [&[u8]; 16] = [
    b"0", b"", b"a:b", b":", b"a: b :c", b" lead", b"trail ", b"  ", b"13", b"caf\xc3\xa9", b"\xff\x80", b"a\tb", b"x=1;y=2", b"grpc-status:7", b"this is a message", b"http://h:80/p?q=1:2",
];

pub fn gen_trailers(rng: &mut Rng) -> Vec<(Vec<u8>, Vec<u8>)> {
    let n = match rng.below(6) {
        0 => 0,
        1 => 1,
        2 => 2,
        _ => rng.range(2, 6),
    };
    let mut out = Vec::new();
    for _ in 0..n {
        let k = if rng.chance(1, 8) {
            let l = rng.range(1, 6) as usize;
            (0..l).map(|_| *rng.pick(b"abcxyz019-_.")).collect::<Vec<u8>>()
        } else {
            rng.pick(&NAMES).as_bytes().to_vec()
        };
        let v = if rng.chance(1, 6) {
            let l = rng.below(12) as usize;
            (0..l).map(|_| *rng.pick(b"ab: ;=\t0\x80\xfe,")).collect::<Vec<u8>>()
        } else {
            rng.pick(&VALUES).to_vec()
        };
        out.push((k, v));
    }
    out
}

/// `gen_trailers` until the result is something a HeaderMap holds
pub fn gen_trailers_valid(rng: &mut Rng) -> Vec<(Vec<u8>, Vec<u8>)> {
    loop {
        let tr = gen_trailers(rng);
        if header_map(&tr).is_some() {
            return tr;
        }
    }
}

/// Cut `bytes` into chunks. Strategies: whole, every byte, at every cut of `marks` (frame starts
/// and the four positions inside each prefix), random cuts, plus empty chunks.
pub fn chunkings(bytes: &[u8], marks: &[usize], rng: &mut Rng, n_random: usize) -> Vec<Vec<Vec<u8>>> {
    let mut res: Vec<Vec<Vec<u8>>> = Vec::new();
    let cut_at = |cuts: &[usize]| -> Vec<Vec<u8>> {
        let mut cs = Vec::new();
        let mut prev = 0;
        for &c in cuts {
            if c > prev && c < bytes.len() {
                cs.push(bytes[prev..c].to_vec());
                prev = c;
            }
        }
        cs.push(bytes[prev..].to_vec());
        cs
    };
    res.push(cut_at(&[]));
    if bytes.len() <= 64 {
        res.push(cut_at(&(1..bytes.len()).collect::<Vec<_>>()));
    }
    if !marks.is_empty() {
        res.push(cut_at(marks));
        for &m in marks.iter().take(12) {
            res.push(cut_at(&[m]));
        }
    }
    for _ in 0..n_random {
        let k = rng.range(1, 5) as usize;
        let mut cuts: Vec<usize> = (0..k).map(|_| rng.below(bytes.len() as u64 + 1) as usize).collect();
        cuts.sort();
        cuts.dedup();
        let mut cs = cut_at(&cuts);
        if rng.chance(1, 3) {
            let at = rng.below(cs.len() as u64 + 1) as usize;
            cs.insert(at, Vec::new());
        }
        res.push(cs);
    }
    res
}

/// every composition of `bytes` (2^(n-1) chunkings)
pub fn all_chunkings(bytes: &[u8]) -> Vec<Vec<Vec<u8>>> {
    let n = bytes.len();
    if n == 0 {
        return vec![vec![vec![]]];
    }
    let mut res = Vec::new();
    for mask in 0u32..(1u32 << (n - 1)) {
        let mut cs = Vec::new();
        let mut prev = 0;
        for i in 1..n {
            if mask >> (i - 1) & 1 == 1 {
                cs.push(bytes[prev..i].to_vec());
                prev = i;
            }
        }
        cs.push(bytes[prev..].to_vec());
        res.push(cs);
    }
    res
}

pub fn prefix_marks(fs: &[(u8, Vec<u8>)]) -> Vec<usize> {
    let mut marks = Vec::new();
    let mut off = 0;
    for (_, p) in fs {
        for d in 0..=5 {
            marks.push(off + d);
        }
        off += 5 + p.len();
    }
    marks.sort();
    marks.dedup();
    marks
}

pub fn with_pendings(chunks: &[Vec<u8>], rng: &mut Rng, density: u64) -> Vec<Ev> {
    let mut evs = Vec::new();
    for c in chunks {
        if density > 0 && rng.chance(1, density) {
            evs.push(Ev::Pending);
        }
        evs.push(Ev::Data(c.clone()));
    }
    evs
}

const ACCEPTS: [&str; 9] = [
    "none",
    "application/grpc-web",
    "application/grpc-web+proto",
    "application/grpc-web-text",
    "application/grpc-web-text+proto",
    "application/grpc-web-text+json",
    "Application/grpc-web-text",
    "*/*",
    "application/grpc-web-text, application/grpc-web",
];
const WEB_CTS: [&str; 4] = ["application/grpc-web", "application/grpc-web+proto", "application/grpc-web-text", "application/grpc-web-text+proto"];

fn tok(s: &str) -> String {
    if s == "none" {
        "none".into()
    } else {
        hex(s.as_bytes())
    }
}

fn resp_case(acc: &str, evs: &[Ev]) -> String {
    let e = render_evs(evs);
    if e.is_empty() {
        format!("resp {}", tok(acc))
    } else {
        format!("resp {} {}", tok(acc), e)
    }
}

fn req_case(ct: &str, evs: &[Ev]) -> String {
    let e = render_evs(evs);
    if e.is_empty() {
        format!("req {}", tok(ct))
    } else {
        format!("req {} {}", tok(ct), e)
    }
}

const URIS: [&str; 5] = ["/", "/pkg.Svc/Method", "http://example.com/pkg.Svc/M?x=1&y=a%20b", "*", "https://h:8443/a/b/"];
const HDR_NAMES: [&str; 12] = ["content-type", "accept", "te", "content-length", "accept-encoding", "x-user", "x-user", "grpc-timeout", "authorization", "origin", "x-grpc-web", "content-encoding"];

fn call_case(method: &[u8], ver: &str, uri: &str, ext: bool, hs: &[(Vec<u8>, Vec<u8>)], evs: &[Ev]) -> String {
    let mut t = vec!["call".to_string(), hex(method), ver.to_string(), hex(uri.as_bytes()), if ext { "1".into() } else { "0".into() }, hs.len().to_string()];
    for (k, v) in hs {
        t.push(hex(k));
        t.push(hex(v));
    }
    let e = render_evs(evs);
    if !e.is_empty() {
        t.push(e);
    }
    t.join(" ")
}

/// further request headers of a `call` case: every header `coerce_request` touches, in several
/// combinations, plus custom ones
fn gen_extra_headers(rng: &mut Rng) -> Vec<(Vec<u8>, Vec<u8>)> {
    let p = |k: &str, v: &str| (k.as_bytes().to_vec(), v.as_bytes().to_vec());
    match rng.below(6) {
        0 => vec![],
        1 => vec![p("te", "gzip"), p("content-length", "4")],
        2 => vec![p("content-length", "4"), p("x-user", "a"), p("accept-encoding", "br"), p("x-user", "b")],
        3 => vec![p("te", "trailers"), p("te", "deflate"), p("grpc-timeout", "1S"), p("content-length", "4"), p("content-length", "4")],
        4 => vec![p("x-user", "b"), p("authorization", "Bearer a:b"), p("x-user", "a")],
        _ => vec![p("accept-encoding", "gzip"), p("accept-encoding", "identity"), p("te", "gzip"), p("origin", "http://example.com")],
    }
}

/// the sizes of DESIGN §9.9 A1: around 16 KiB, 32 KiB, 64 KiB and well beyond
pub const BIG_SIZES: [usize; 9] = [16383, 16384, 16385, 32767, 32768, 32769, 65535, 65536, 100000];

pub fn big_payload(rng: &mut Rng, sz: usize) -> Vec<u8> {
    match rng.below(3) {
        0 => (0..sz).map(|i| (i * 7 + i / 256) as u8).collect(),
        1 => vec![0x80u8; sz],
        _ => rng.bytes(sz),
    }
}

/// trailer maps beyond the one-byte and two-byte length ranges: (a) > 255 B in total from short
/// entries, (b) one value of 70 000 B, (c) > 65 535 B in total from many medium entries
pub fn big_trailers(rng: &mut Rng, which: u64) -> Vec<(Vec<u8>, Vec<u8>)> {
    let mut tr = vec![(b"grpc-status".to_vec(), b"0".to_vec())];
    match which % 3 {
        0 => {
            for i in 0..rng.range(12, 20) {
                tr.push((format!("x-k{}", i % 5).into_bytes(), format!("value:{} with some text;{}", i, "ab".repeat(rng.range(3, 9) as usize)).into_bytes()));
            }
        }
        1 => {
            let v: Vec<u8> = (0..70000usize).map(|i| b"abcdefghijklmnopqrstuvwxyz:0123 ;="[(i * 11 + i / 97) % 34]).collect();
            tr.push((b"x-big".to_vec(), v));
            tr.push((b"grpc-message".to_vec(), b"after the big one".to_vec()));
        }
        _ => {
            for i in 0..rng.range(300, 340) {
                let l = rng.range(200, 260) as usize;
                let v: Vec<u8> = (0..l).map(|j| b"abc:xyz 019"[(i as usize + j) % 11]).collect();
                tr.push((format!("x-m{}", i % 37).into_bytes(), v));
            }
        }
    }
    tr
}

pub fn generate(tier: &str, rng: &mut Rng) -> Vec<String> {
    let thorough = tier == "thorough";
    let mut out: Vec<String> = Vec::new();
    let st0 = vec![(b"grpc-status".to_vec(), b"0".to_vec())];

    // ---- corpus -----------------------------------------------------------------------------
    // the conforming probes of DESIGN §5 (text request split inside quanta, response frames split
    // inside the prefix, repeated trailer name, value containing ':')
    let probe_tr = vec![
        (b"grpc-status".to_vec(), b"0".to_vec()),
        (b"x".to_vec(), b"a:b".to_vec()),
        (b"grpc-status".to_vec(), b"7".to_vec()),
        (b"grpc-message".to_vec(), b" lead: and trail ".to_vec()),
    ];
    for acc in ["application/grpc-web-text", "application/grpc-web", "none"] {
        out.push(resp_case(
            acc,
            &[Ev::Data(vec![0, 0]), Ev::Pending, Ev::Data(vec![0, 0, 3, 1, 2, 3, 1, 0, 0, 0, 1]), Ev::Data(vec![]), Ev::Data(vec![9]), Ev::Trailers(probe_tr.clone())],
        ));
        out.push(resp_case(acc, &[Ev::Trailers(vec![])]));
        out.push(resp_case(acc, &[]));
        out.push(resp_case(acc, &[Ev::Data(vec![0, 0, 0, 0, 1, 1]), Ev::Err]));
        out.push(resp_case(acc, &[Ev::Err]));
    }
    for ct in WEB_CTS {
        out.push(req_case(ct, &[Ev::Data(b"AAAAAA".to_vec()), Ev::Pending, Ev::Data(b"IBA".to_vec()), Ev::Data(b"g==".to_vec())]));
        out.push(req_case(ct, &[Ev::Data(b"AAAAAAIBA".to_vec())])); // truncated text
        out.push(req_case(ct, &[Ev::Data(b"AQ==AQ==".to_vec())])); // padding in the middle of one chunk
        out.push(req_case(ct, &[Ev::Data(b"AQ==".to_vec()), Ev::Data(b"AQ==".to_vec())])); // … in two chunks
        out.push(req_case(ct, &[Ev::Data(b"AR==".to_vec())])); // non-zero discarded bits
        out.push(req_case(ct, &[Ev::Data(b"AQ".to_vec())])); // unpadded
        out.push(req_case(ct, &[]));
        out.push(req_case(ct, &[Ev::Data(b"AAAA".to_vec()), Ev::Trailers(st0.clone())]));
        out.push(req_case(ct, &[Ev::Data(b"AAAA".to_vec()), Ev::Err]));
    }

    // ---- call: the four arms of `GrpcWebService::call`, whole request observed -----------------
    // full product of method x version x content-type x accept, each with one of several sets of
    // further headers (te, content-length, accept-encoding, repeated custom names, a second
    // content-type / accept value), a uri and the extensions marker
    let methods = ["POST", "GET", "PUT", "DELETE", "HEAD", "OPTIONS", "PATCH", "post", "POSTX", "CONNECT", "TRACE", "Post"];
    let vers = ["h09", "h10", "h11", "h2", "h3"];
    let cts = [
        "none",
        "application/grpc-web",
        "application/grpc-web+proto",
        "application/grpc-web-text",
        "application/grpc-web-text+proto",
        "application/grpc",
        "application/grpc+proto",
        "application/json",
        "application/grpc-web;charset=utf-8",
        "Application/Grpc-Web",
        "application/grpc-web ",
        "application/grpc-web-text+proto2",
        "application/grpc-webx",
        "application/grpc-web+json",
        "application/grpc-we",
        "",
    ];
    for m in methods {
        for v in vers {
            for ct in cts {
                for acc in ACCEPTS {
                    if thorough || m == "POST" || m == "GET" || rng.chance(1, 4) {
                        let mut hs: Vec<(Vec<u8>, Vec<u8>)> = Vec::new();
                        let extra = gen_extra_headers(rng);
                        let cut = rng.below(extra.len() as u64 + 1) as usize;
                        hs.extend_from_slice(&extra[..cut]);
                        if ct != "none" {
                            hs.push((b"content-type".to_vec(), ct.as_bytes().to_vec()));
                        }
                        if acc != "none" {
                            hs.push((b"accept".to_vec(), acc.as_bytes().to_vec()));
                        }
                        hs.extend_from_slice(&extra[cut..]);
                        let body = if rng.chance(1, 8) { vec![Ev::Data(vec![0, 0, 0, 0, 2]), Ev::Pending, Ev::Data(vec![8, 9])] } else { vec![Ev::Data(KIND_REQ.to_vec())] };
                        out.push(call_case(m.as_bytes(), v, *rng.pick(&URIS), rng.chance(1, 2), &hs, &body));
                    }
                }
            }
        }
    }
    // high-bit / odd content-type bytes
    for ct in [&b"application/grpc-web\xff"[..], b"\xe2\x98\x83", b"application/grpc-web\t"] {
        for v in vers {
            out.push(call_case(b"POST", v, "/", false, &[(b"content-type".to_vec(), ct.to_vec())], &[Ev::Data(KIND_REQ.to_vec())]));
        }
    }
    // the first value of a repeated content-type / accept decides (`HeaderMap::get`)
    for v in ["h11", "h2"] {
        for (a, b) in [("application/grpc-web-text", "application/grpc"), ("application/grpc", "application/grpc-web"), ("application/json", "application/grpc-web-text+proto")] {
            for m in ["POST", "GET"] {
                let hs = vec![
                    (b"content-type".to_vec(), a.as_bytes().to_vec()),
                    (b"te".to_vec(), b"gzip".to_vec()),
                    (b"accept".to_vec(), b.as_bytes().to_vec()),
                    (b"content-type".to_vec(), b.as_bytes().to_vec()),
                    (b"content-length".to_vec(), b"4".to_vec()),
                    (b"accept".to_vec(), a.as_bytes().to_vec()),
                ];
                out.push(call_case(m.as_bytes(), v, "/pkg.Svc/M", true, &hs, &[Ev::Data(KIND_REQ.to_vec())]));
            }
        }
    }
    // random header maps (names from a vocabulary that contains every header the layer touches)
    let n_call = if thorough { 6000 } else { 600 };
    for _ in 0..n_call {
        let n = rng.below(9) as usize;
        let mut hs: Vec<(Vec<u8>, Vec<u8>)> = Vec::new();
        for _ in 0..n {
            let k = *rng.pick(&HDR_NAMES);
            let v: Vec<u8> = match k {
                "content-type" | "accept" => {
                    if rng.chance(3, 4) {
                        rng.pick(&WEB_CTS).as_bytes().to_vec()
                    } else {
                        rng.pick(&cts[5..]).as_bytes().to_vec()
                    }
                }
                _ => rng.pick(&VALUES).to_vec(),
            };
            hs.push((k.as_bytes().to_vec(), v));
        }
        if header_map(&hs).is_none() {
            continue;
        }
        let m = *rng.pick(&["POST", "POST", "GET", "OPTIONS"]);
        let v = *rng.pick(&["h11", "h2", "h2", "h10", "h3"]);
        let fs = gen_frames(rng, 2, false);
        let payload = frames_bytes(&fs);
        let text = hs.iter().find(|p| p.0 == b"content-type").map(|p| p.1.starts_with(b"application/grpc-web-text")).unwrap_or(false);
        let body = if text { b64(&payload) } else { payload };
        let ck = chunkings(&body, &[], rng, 1).pop().unwrap();
        let evs = with_pendings(&ck, rng, 4);
        out.push(call_case(m.as_bytes(), v, *rng.pick(&URIS), rng.chance(1, 2), &hs, &evs));
    }

    // ---- resp: structured -------------------------------------------------------------------
    let n_resp = if thorough { 6000 } else { 500 };
    for _ in 0..n_resp {
        let fs = gen_frames(rng, 4, true);
        let bytes = frames_bytes(&fs);
        let tr = gen_trailers(rng);
        if header_map(&tr).is_none() {
            continue;
        }
        let marks = prefix_marks(&fs);
        let cks = chunkings(&bytes, &marks, rng, 3);
        for ck in cks {
            let acc = *rng.pick(&ACCEPTS);
            let dens = *rng.pick(&[0u64, 0, 3, 1]);
            let mut evs = with_pendings(&ck, rng, dens);
            if bytes.is_empty() && rng.chance(1, 2) {
                evs.clear();
            }
            if rng.chance(1, 10) {
                evs.push(Ev::Pending);
            }
            evs.push(Ev::Trailers(tr.clone()));
            out.push(resp_case(acc, &evs));
        }
    }
    // ---- resp: sizes around 16 KiB / 32 KiB / 64 KiB and beyond (DESIGN §9.9 A1) -----------------
    for (i, &sz) in BIG_SIZES.iter().enumerate() {
        let fs = vec![(rng.below(2) as u8, big_payload(rng, sz))];
        let bytes = frames_bytes(&fs);
        for (j, acc) in ["application/grpc-web-text", "application/grpc-web+proto"].iter().enumerate() {
            // the frame in one chunk of exactly / just over the size
            let mut cks: Vec<Vec<Vec<u8>>> = vec![vec![bytes.clone()]];
            // a first chunk of exactly `sz` bytes (the 5 prefix bytes push the payload's tail into a second one)
            if (i + j) % 2 == 0 || thorough {
                cks.push(vec![bytes[..sz].to_vec(), bytes[sz..].to_vec()]);
            }
            if thorough {
                cks.extend(chunkings(&bytes, &[5, 16384, 32768, 65536], rng, 2));
            }
            for ck in cks {
                let mut evs = with_pendings(&ck, rng, 3);
                evs.push(Ev::Trailers(st0.clone()));
                out.push(resp_case(acc, &evs));
            }
        }
    }
    // one body chunk holding several frames that total more than 64 KiB
    for acc in ["application/grpc-web-text", "application/grpc-web"] {
        let fs = vec![(0u8, big_payload(rng, 30000)), (1u8, big_payload(rng, 30001)), (0u8, big_payload(rng, 10000)), (0u8, vec![])];
        let bytes = frames_bytes(&fs);
        let mut evs = vec![Ev::Data(bytes.clone())];
        evs.push(Ev::Trailers(gen_trailers_valid(rng)));
        out.push(resp_case(acc, &evs));
        if thorough {
            for ck in chunkings(&bytes, &prefix_marks(&fs), rng, 3) {
                let mut evs = with_pendings(&ck, rng, 3);
                evs.push(Ev::Trailers(gen_trailers_valid(rng)));
                out.push(resp_case(acc, &evs));
            }
        }
    }
    // trailer maps of > 255 B, with one value of 70 000 B, of > 65 535 B in total
    for which in 0..3u64 {
        for acc in ["application/grpc-web-text+proto", "none"] {
            let reps = if thorough { 3 } else { 1 };
            for _ in 0..reps {
                let fs = gen_frames(rng, 2, true);
                let mut evs = with_pendings(&[frames_bytes(&fs)], rng, 2);
                evs.push(Ev::Trailers(big_trailers(rng, which)));
                out.push(resp_case(acc, &evs));
            }
        }
    }
    // small-scope exhaustive: every chunking of small bodies, both forms
    let small: Vec<Vec<(u8, Vec<u8>)>> = vec![
        vec![(0, vec![7])],
        vec![(1, vec![])],
        vec![(0, vec![1, 2])],
        vec![(0, vec![]), (0, vec![5])],
        vec![(0, vec![1, 2, 3, 4])],
    ];
    for fs in &small {
        let bytes = frames_bytes(fs);
        if !thorough && bytes.len() > 7 {
            continue;
        }
        for ck in all_chunkings(&bytes) {
            for acc in ["application/grpc-web-text", "application/grpc-web+proto"] {
                let mut evs = with_pendings(&ck, rng, 0);
                evs.push(Ev::Trailers(st0.clone()));
                out.push(resp_case(acc, &evs));
            }
        }
    }
    // ---- resp: malformed (outside the property's domain; the model must still agree) ---------
    let n_mal = if thorough { 3000 } else { 300 };
    for _ in 0..n_mal {
        let fs = gen_frames(rng, 3, false);
        let nb = rng.below(20) as usize;
        let bytes = if rng.chance(1, 3) { rng.bytes(nb) } else { frames_bytes(&fs) };
        let ck = chunkings(&bytes, &[], rng, 1).pop().unwrap();
        let mut evs = with_pendings(&ck, rng, 4);
        let tr = gen_trailers(rng);
        if header_map(&tr).is_none() {
            continue;
        }
        match rng.below(5) {
            0 => {
                let at = rng.below(evs.len() as u64 + 1) as usize;
                evs.insert(at, Ev::Err);
                evs.push(Ev::Trailers(tr));
            }
            1 => {} // no trailers at all
            2 => {
                evs.push(Ev::Trailers(tr.clone()));
                evs.push(Ev::Data(vec![0, 0, 0, 0, 0]));
            }
            3 => {
                evs.push(Ev::Trailers(tr.clone()));
                evs.push(Ev::Trailers(st0.clone()));
            }
            _ => {
                evs.push(Ev::Trailers(tr));
                evs.push(Ev::Err);
            }
        }
        out.push(resp_case(*rng.pick(&ACCEPTS), &evs));
    }

    // ---- req: structured --------------------------------------------------------------------
    let n_req = if thorough { 6000 } else { 500 };
    for _ in 0..n_req {
        let fs = gen_frames(rng, 3, true);
        let payload = frames_bytes(&fs);
        for ct in [WEB_CTS[2], WEB_CTS[3], WEB_CTS[0], WEB_CTS[1]] {
            let text = ct.contains("text");
            let body = if text { b64(&payload) } else { payload.clone() };
            // marks: around every quantum boundary of the first quanta, and the tail
            let mut marks: Vec<usize> = (1..body.len().min(14)).collect();
            for d in 1..=5 {
                if body.len() > d {
                    marks.push(body.len() - d);
                }
            }
            marks.sort();
            marks.dedup();
            let nrand = if text { 3 } else { 1 };
            let mut cks = chunkings(&body, &marks, rng, nrand);
            if !text {
                cks.truncate(3);
                cks.push(chunkings(&body, &[], rng, 1).pop().unwrap());
            }
            for ck in cks {
                if !thorough && rng.chance(1, 2) {
                    continue;
                }
                let dens = *rng.pick(&[0u64, 0, 3]);
                let evs = with_pendings(&ck, rng, dens);
                out.push(req_case(ct, &evs));
            }
        }
    }
    // ---- req: sizes around 16 KiB / 32 KiB / 64 KiB and beyond, binary and text ------------------
    for (i, &sz) in BIG_SIZES.iter().enumerate() {
        let fs = vec![(rng.below(2) as u8, big_payload(rng, sz - 5))]; // the whole frame is `sz` bytes
        let payload = frames_bytes(&fs);
        for (j, ct) in [WEB_CTS[2], WEB_CTS[0]].iter().enumerate() {
            let text = ct.contains("text");
            let body = if text { b64(&payload) } else { payload.clone() };
            let mut cks: Vec<Vec<Vec<u8>>> = vec![vec![body.clone()]];
            if (i + j) % 2 == 1 || thorough {
                // a text chunk of exactly `sz` characters / a binary one cut inside a quantum-sized tail
                let at = if text { sz } else { sz - 3 };
                cks.push(vec![body[..at].to_vec(), body[at..].to_vec()]);
            }
            if thorough {
                cks.extend(chunkings(&body, &[8192, 8193, 16384, 32768, 65536], rng, 2));
            }
            for ck in cks {
                out.push(req_case(ct, &with_pendings(&ck, rng, 3)));
            }
        }
    }
    // several frames in one chunk, > 64 KiB together
    for ct in [WEB_CTS[3], WEB_CTS[1]] {
        let fs = vec![(0u8, big_payload(rng, 30000)), (1u8, big_payload(rng, 30001)), (0u8, big_payload(rng, 10000))];
        let payload = frames_bytes(&fs);
        let body = if ct.contains("text") { b64(&payload) } else { payload };
        out.push(req_case(ct, &[Ev::Data(body.clone())]));
        if thorough {
            for ck in chunkings(&body, &[], rng, 3) {
                out.push(req_case(ct, &with_pendings(&ck, rng, 3)));
            }
        }
    }
    // small-scope exhaustive: every chunking of short text bodies (1, 2, 3, 4, 6 payload bytes)
    for payload in [&[5u8][..], &[5, 6], &[5, 6, 7], &[0, 0, 0, 0], &[0, 0, 0, 0, 1, 9]] {
        let body = b64(payload);
        if !thorough && body.len() > 8 {
            continue;
        }
        for ck in all_chunkings(&body) {
            out.push(req_case(WEB_CTS[2], &with_pendings(&ck, rng, 0)));
        }
    }
    // ---- req: malformed ---------------------------------------------------------------------
    let n_mal = if thorough { 8000 } else { 800 };
    for _ in 0..n_mal {
        let fs = gen_frames(rng, 3, false);
        let payload = frames_bytes(&fs);
        let mut body = match rng.below(3) {
            0 => fs.iter().flat_map(|(f, p)| b64(&frame(*f, p))).collect::<Vec<u8>>(), // per-frame padded pieces
            _ => b64(&payload),
        };
        match rng.below(9) {
            0 => {
                let n = rng.below(body.len() as u64 + 1) as usize;
                body.truncate(n);
            }
            1 => {
                if !body.is_empty() {
                    let i = rng.below(body.len() as u64) as usize;
                    body[i] = *rng.pick(b"-_ \n\r=.*\x00\xff~");
                }
            }
            2 => {
                let i = rng.below(body.len() as u64 + 1) as usize;
                body.insert(i, *rng.pick(b"=\n A"));
            }
            3 => {
                while body.last() == Some(&b'=') {
                    body.pop();
                }
            }
            4 => {
                // non-zero discarded bits in the last quantum
                if let Some(p) = body.iter().position(|&b| b == b'=') {
                    if p > 0 {
                        let idx = B64.iter().position(|&c| c == body[p - 1]).unwrap_or(0);
                        body[p - 1] = B64[(idx | 1) & 63];
                    }
                }
            }
            5 => {
                let nb = rng.below(16) as usize;
                body = rng.bytes(nb);
            }
            6 => body.extend_from_slice(b"===="),
            _ => {}
        }
        let ck = if body.len() <= 12 && rng.chance(1, 2) {
            let all = all_chunkings(&body);
            all[rng.below(all.len() as u64) as usize].clone()
        } else {
            chunkings(&body, &[], rng, 1).pop().unwrap()
        };
        let mut evs = with_pendings(&ck, rng, 5);
        match rng.below(8) {
            0 => {
                let at = rng.below(evs.len() as u64 + 1) as usize;
                evs.insert(at, Ev::Err);
            }
            1 => {
                let tr = gen_trailers(rng);
                if header_map(&tr).is_some() {
                    evs.push(Ev::Trailers(tr));
                }
            }
            _ => {}
        }
        let ct = if rng.chance(4, 5) { *rng.pick(&WEB_CTS[2..]) } else { *rng.pick(&WEB_CTS[..2]) };
        out.push(req_case(ct, &evs));
    }
    // inner response bodies that give `http_body` hints (seed C16e: `Body::new` took a body with an exact size
    // of 0 - no data, trailers still to come, as `Empty`/`Full` `with_trailers` report - for an empty body):
    // every trailers-only / no-data response of the corpus, and a quarter of all other `resp` cases, again
    // with an exact size hint, an end-of-stream hint, and both
    let mut hinted = Vec::new();
    for l in &out {
        if let Some(rest) = l.strip_prefix("resp ") {
            let no_data = !rest.split(' ').any(|t| t.starts_with('d'));
            if no_data || rng.chance(1, 4) {
                let h = if no_data { 1 + rng.below(3) } else { 1 + rng.below(3) };
                hinted.push(format!("resph {} {}", h, rest));
                if no_data {
                    hinted.push(format!("resph 1 {}", rest));
                }
            }
        }
    }
    hinted.sort();
    hinted.dedup();
    out.extend(hinted);
    out.extend(x::generate(tier, rng));
    out
}
