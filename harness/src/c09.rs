//! C09 — grpc-timeout encoding/parsing and shortest-deadline enforcement.
//! Case kinds: enc, encs, parse, run, e2e, cli, srv, seq, runl, clil, e2el, mw, chan, chano, conn, conno
//! (described above each section below), and the audit's kinds cx, sx, runw, cliw (c09_audit.rs).
use crate::common::*;
use http::{HeaderMap, HeaderValue};
use std::time::Duration;
use tonic::transport::verif_hooks::{parse_grpc_timeout, GrpcTimeoutHook};
use tower::{Service, ServiceExt};

#[path = "c09_audit.rs"]
mod audit;

const NS: u128 = 1;
const UNITS: [(u8, u128); 6] = [
    (b'n', NS),
    (b'u', 1_000),
    (b'm', 1_000_000),
    (b'S', 1_000_000_000),
    (b'M', 60_000_000_000),
    (b'H', 3_600_000_000_000),
];

pub fn generate(tier: &str, rng: &mut Rng) -> Vec<String> {
    let thorough = tier == "thorough";
    let mut out = Vec::new();
    // a client-only build of tonic (side crate harness_c09cl, seed C09i): endpoint timeout x caller timeout, ms
    for (e, c) in [("200", "-"), ("30000", "50"), ("-", "3000"), ("100", "5000"), ("1", "1"), ("-", "1"), ("60000", "60000"), ("7", "-"), ("2500", "2499"), ("2499", "2500")] {
        out.push(format!("featc {} {}", e, c));
    }
    // corpus: witnesses of earlier findings
    for v in ["+5S", "+0n", "+99999999H", "-1S", "5", "S", "", "123456789S", "5s", "5 S", " 5S", "0H"] {
        out.push(format!("parse {}", hex(v.as_bytes())));
    }
    // enc: every unit boundary ±1 ns and around, plus random
    let max = 99_999_999u128;
    let mut ds: Vec<u128> = vec![0, 1, 999, 1000, 1001];
    for (_, k) in UNITS {
        for v in [1u128, 2, 59, 60, 61, 999, 1000, 1001, max - 1, max, max + 1] {
            for delta in [-1i128, 0, 1] {
                let d = (v * k) as i128 + delta;
                if d >= 0 {
                    ds.push(d as u128);
                }
            }
        }
    }
    ds.push(100_000_000u128 * 3_600_000_000_000 - 1); // largest representable
    let nrand = if thorough { 20000 } else { 1500 };
    for _ in 0..nrand {
        let (_, k) = *rng.pick(&UNITS);
        let v = match rng.below(4) {
            0 => rng.below(100),
            1 => rng.below(100_000_000),
            2 => 99_999_000 + rng.below(2000),
            _ => rng.below(10_000),
        } as u128;
        let off = rng.below(k as u64 + 1) as u128;
        ds.push((v * k + off).min(100_000_000u128 * 3_600_000_000_000 - 1));
    }
    for d in ds {
        out.push(format!("enc {}", d));
    }
    // parse: structured (every unit × 1..=9 digits × boundary digit strings, leading + / space),
    // all 256 unit bytes that a HeaderValue can carry, malformed
    for (u, _) in UNITS {
        for nd in 0..=9usize {
            for pat in 0..4 {
                let digits: String = match pat {
                    0 => "9".repeat(nd),
                    1 => "0".repeat(nd),
                    2 => (0..nd).map(|i| char::from(b'1' + (i % 9) as u8)).collect(),
                    _ => (0..nd).map(|_| char::from(b'0' + rng.below(10) as u8)).collect(),
                };
                let mut v = digits.into_bytes();
                v.push(u);
                out.push(format!("parse {}", hex(&v)));
                let mut w = vec![b'+'];
                w.extend_from_slice(&v);
                out.push(format!("parse {}", hex(&w)));
            }
        }
    }
    for b in 0u16..=255 {
        let b = b as u8;
        if (b >= 32 && b != 127) || b == 9 {
            out.push(format!("parse {}", hex(&[b'7', b])));
            out.push(format!("parse {}", hex(&[b, b'S'])));
            out.push(format!("parse {}", hex(&[b'1', b, b'2', b'm'])));
        }
    }
    let nrand = if thorough { 20000 } else { 1500 };
    let alphabet: Vec<u8> = b"0123456789+- nHMSmuXx\t.e\xc3\xa9".to_vec();
    for _ in 0..nrand {
        let n = rng.below(12) as usize;
        let v: Vec<u8> = (0..n)
            .map(|_| {
                if rng.chance(9, 10) {
                    *rng.pick(&alphabet)
                } else {
                    let b = rng.next() as u8;
                    if (b >= 32 && b != 127) || b == 9 {
                        b
                    } else {
                        b'1'
                    }
                }
            })
            .collect();
        out.push(format!("parse {}", hex(&v)));
    }
    // run: (caller, configured, latency) grid around boundaries, in ns
    let grid: Vec<Option<u128>> = vec![None, Some(0), Some(1_000_000), Some(2_000_000), Some(1_000_000_000)];
    for c in &grid {
        for s in &grid {
            let mut lats: Vec<u128> = vec![0, 1_000_000, 5_000_000_000];
            for t in [c, s].into_iter().flatten() {
                for delta in [-1_000_000i128, 0, 1_000_000] {
                    let l = *t as i128 + delta;
                    if l >= 0 {
                        lats.push(l as u128);
                    }
                }
            }
            lats.sort();
            lats.dedup();
            for l in lats {
                out.push(format!("run {} {} {}", opt_tok(*c), opt_tok(*s), l));
            }
        }
    }
    let nrand = if thorough { 3000 } else { 300 };
    for _ in 0..nrand {
        let mut t = |rng: &mut Rng| -> Option<u128> {
            if rng.chance(1, 4) {
                None
            } else {
                Some(rng.below(50) as u128 * 1_000_000)
            }
        };
        let c = t(rng);
        let s = t(rng);
        let l = rng.below(50) as u128 * 1_000_000;
        out.push(format!("run {} {} {}", opt_tok(c), opt_tok(s), l));
    }
    out.extend(gen_e2e(tier, rng));
    out.extend(gen_sided(tier, rng));
    out.extend(gen_more(tier, rng));
    out.extend(gen_late(tier, rng));
    out.extend(gen_multi(tier, rng));
    out.extend(audit::generate(tier, rng));
    out
}

fn dur(ns: u128) -> Duration {
    Duration::new((ns / 1_000_000_000) as u64, (ns % 1_000_000_000) as u32)
}

/// `featc …`: answered by the side binary of ../harness_c09cl (a client-only build of tonic), one process per case
fn execute_featc(case: &str) -> String {
    let rel = "harness_c09cl/target/debug/c09cl";
    let mut roots: Vec<std::path::PathBuf> = Vec::new();
    if let Ok(exe) = std::env::current_exe() {
        // <root>/harness/target/debug/harness
        if let Some(r) = exe.ancestors().nth(4) {
            roots.push(r.to_path_buf());
        }
    }
    roots.push(std::path::Path::new(env!("CARGO_MANIFEST_DIR")).join(".."));
    let Some(bin) = roots.into_iter().map(|r| r.join(rel)).find(|p| p.is_file()) else {
        return "side-binary-missing".into();
    };
    match std::process::Command::new(bin).args(case.split(' ')).output() {
        Ok(o) if o.status.success() => String::from_utf8_lossy(&o.stdout).trim().to_string(),
        _ => "side-process-died".into(),
    }
}

pub fn execute(case: &str) -> String {
    if case.starts_with("featc ") {
        return execute_featc(case);
    }
    let t: Vec<&str> = case.split(' ').collect();
    if let Some(r) = audit::execute(&t) {
        return r;
    }
    match t.as_slice() {
        ["enc", d] => {
            let d: u128 = d.parse().unwrap();
            let mut req = tonic::Request::new(());
            req.set_timeout(dur(d));
            match req.metadata().get("grpc-timeout") {
                Some(v) => hex(v.as_encoded_bytes()),
                None => "absent".into(),
            }
        }
        ["parse", v] => {
            let v = unhex(v).unwrap();
            let mut h = HeaderMap::new();
            match HeaderValue::from_bytes(&v) {
                Ok(hv) => {
                    h.insert("grpc-timeout", hv);
                }
                Err(_) => return "not-a-header-value".into(),
            }
            match parse_grpc_timeout(&h) {
                Ok(Some(d)) => format!("some {}", d.as_nanos()),
                Ok(None) => "absent".into(),
                Err(()) => "ignored".into(),
            }
        }
        ["e2e", c, s, e, l] => {
            let (Some(c), Some(s), Some(e), Ok(l)) = (caller(c), opt_ns(s), opt_ns(e), l.parse()) else { return "bad-case".into() };
            e2e_case(c, s, e, l)
        }
        ["cli", peer, c, e, l] => {
            let (Some(c), Some(e), Some(l)) = (caller(c), opt_ns(e), lat_ns(l)) else { return "bad-case".into() };
            let peer = match *peer {
                "silent" => Peer::Silent,
                "stall" => Peer::Stall,
                "routes" => Peer::Routes,
                _ => return "bad-case".into(),
            };
            cli_case(peer, c, e, l)
        }
        ["srv", h, s, l] => {
            let (Some(h), Some(s), Some(l)) = (caller(h), opt_ns(s), lat_ns(l)) else { return "bad-case".into() };
            srv_case(h, s, l)
        }
        ["run", c, s, l] => {
            let (Some(c), Some(s), Ok(l)) = (caller(c), opt_ns(s), l.parse()) else { return "bad-case".into() };
            run_case(c, s, l)
        }
        ["runl", c, s, l, b] => {
            let (Some(c), Some(s), Some(l), Ok(b)) = (caller(c), opt_ns(s), lat_ns(l), b.parse()) else { return "bad-case".into() };
            runl_case(c, s, l, b)
        }
        ["clil", peer, c, e, l, b] => {
            let (Some(c), Some(e), Some(l), Ok(b)) = (caller(c), opt_ns(e), lat_ns(l), b.parse()) else { return "bad-case".into() };
            let peer = match *peer {
                "silent" => Peer::Silent,
                "routes" => Peer::Routes,
                _ => return "bad-case".into(),
            };
            clil_case(peer, c, e, l, b)
        }
        ["e2el", c, s, e, l, b] => {
            let (Some(c), Some(s), Some(e), Ok(l), Ok(b)) = (caller(c), opt_ns(s), opt_ns(e), l.parse(), b.parse()) else { return "bad-case".into() };
            e2el_case(c, s, e, l, b)
        }
        ["seq", cs, sops, eops, l] => {
            let cs: Option<Vec<u128>> = if *cs == "-" { Some(vec![]) } else { cs.split(',').map(|x| x.parse().ok()).collect() };
            let (Some(cs), Some(so), Some(eo), Ok(l)) = (cs, ops(sops), ops(eops), l.parse()) else { return "bad-case".into() };
            seq_case(cs, so, eo, l)
        }
        ["mw", s, rest @ ..] => {
            let (Some(s), Some(calls)) = (opt_ns(s), parse_calls(rest)) else { return "bad-case".into() };
            mw_case(s, calls)
        }
        ["chan", peer, e, rest @ ..] => {
            let (Some(peer), Some(e), Some(calls)) = (plain_peer(peer), opt_ns(e), parse_calls(rest)) else { return "bad-case".into() };
            chan_case(peer, e, None, calls)
        }
        ["chano", peer, e, g, rest @ ..] => {
            let (Some(peer), Some(e), Ok(g), Some(calls)) = (plain_peer(peer), opt_ns(e), g.parse(), parse_calls(rest)) else { return "bad-case".into() };
            chan_case(peer, e, Some(g), calls)
        }
        ["conn", s, rest @ ..] => {
            let (Some(s), Some(calls)) = (opt_ns(s), parse_calls(rest)) else { return "bad-case".into() };
            conn_case(s, None, calls)
        }
        ["conno", s, g, rest @ ..] => {
            let (Some(s), Ok(g), Some(calls)) = (opt_ns(s), g.parse(), parse_calls(rest)) else { return "bad-case".into() };
            conn_case(s, Some(g), calls)
        }
        ["encs", ds @ ..] if !ds.is_empty() => {
            let mut req = tonic::Request::new(());
            for d in ds {
                let Ok(d) = d.parse::<u128>() else { return "bad-case".into() };
                req.set_timeout(dur(d));
            }
            let vals: Vec<String> = req.metadata().get_all("grpc-timeout").iter().map(|v| hex(v.as_encoded_bytes())).collect();
            if vals.is_empty() {
                "absent".into()
            } else {
                vals.join(" ")
            }
        }
        _ => "bad-case".into(),
    }
}

/// Drive the real `GrpcTimeout` middleware in virtual time: the caller's timeout travels as a
/// `grpc-timeout` header written by `Request::set_timeout`; the inner service answers after
/// `latency`.
fn run_case(c: Caller, s: Option<u128>, latency: u128) -> String {
    let mut treq = tonic::Request::new(());
    if !c.apply(&mut treq) {
        return "not-a-header-value".into();
    }
    let rt = paused_rt();
    rt.block_on(async move {
        let inner = tower::service_fn(move |_req: http::Request<()>| async move {
            tokio::time::sleep(dur(latency)).await;
            Ok::<_, tonic::Status>(http::Response::new(()))
        });
        // as in transport::Server: RecoverError (error → trailers-only response) around GrpcTimeout
        let mut svc = tonic::service::RecoverError::new(GrpcTimeoutHook::new(inner, s.map(dur)));
        let mut req = http::Request::new(());
        *req.headers_mut() = treq.metadata().clone().into_headers();
        // outer watchdog far beyond every deadline: a stuck future is the observable `hang`
        let fut = svc.ready().await.unwrap().call(req);
        match tokio::time::timeout(Duration::from_secs(1_000_000), fut).await {
            Err(_) => "hang".into(),
            Ok(Ok(resp)) => match tonic::Status::from_header_map(resp.headers()) {
                None => "inner".into(),
                Some(st) => format!("timeout {} {}", st.code() as i32, hex(st.message().as_bytes())),
            },
            Ok(Err(e)) => {
                let st = tonic::Status::from_error(e);
                format!("unrecovered {} {}", st.code() as i32, hex(st.message().as_bytes()))
            }
        }
    })
}

/// The caller's deadline as a case token: `none`, a duration in ns (→ `Request::set_timeout`, or a
/// hand-written exact value for the bare h2 client), or raw grpc-timeout header values
/// `x<hex>[,x<hex>]*` put into the request as they are (possibly malformed, possibly several).
#[derive(Clone)]
enum Caller {
    Absent,
    Dur(u128),
    Raw(Vec<Vec<u8>>),
}

fn caller(x: &str) -> Option<Caller> {
    if x == "none" {
        Some(Caller::Absent)
    } else if x.starts_with('x') {
        x.split(',').map(unhex).collect::<Option<Vec<_>>>().map(Caller::Raw)
    } else {
        x.parse().ok().map(Caller::Dur)
    }
}

impl Caller {
    /// false: some raw value cannot be an HTTP header value at all
    fn apply<T>(&self, req: &mut tonic::Request<T>) -> bool {
        match self {
            Caller::Absent => true,
            Caller::Dur(d) => {
                req.set_timeout(dur(*d));
                true
            }
            Caller::Raw(vals) => {
                let mut h = std::mem::take(req.metadata_mut()).into_headers();
                for v in vals {
                    match HeaderValue::from_bytes(v) {
                        Ok(hv) => {
                            h.append("grpc-timeout", hv);
                        }
                        Err(_) => return false,
                    }
                }
                *req.metadata_mut() = tonic::metadata::MetadataMap::from_headers(h);
                true
            }
        }
    }
    /// header values for a client that is not tonic
    fn by_hand(&self) -> Option<Vec<HeaderValue>> {
        match self {
            Caller::Absent => Some(vec![]),
            Caller::Dur(d) => hand_timeout(*d).map(|v| vec![HeaderValue::from_str(&v).unwrap()]),
            Caller::Raw(vals) => vals.iter().map(|v| HeaderValue::from_bytes(v).ok()).collect(),
        }
    }
}

// ===== end to end: the real transport stack on both sides =====
//   e2e <caller ns|none> <Server::timeout ns|none> <Endpoint::timeout ns|none> <handler latency ns>
// A real `transport::Server` (with `.timeout`) and a real `Channel` (with `Endpoint::timeout`) over an
// in-memory duplex, virtual time; the caller's deadline travels as grpc-timeout.

/// `None` = the handler never answers.
#[derive(Clone)]
struct SleepSvc(Option<u128>);

async fn wait(l: Option<u128>) {
    match l {
        Some(l) => tokio::time::sleep(dur(l)).await,
        None => std::future::pending::<()>().await,
    }
}

impl tonic::server::NamedService for SleepSvc {
    const NAME: &'static str = "verif.Sleep";
}

struct SleepUnary(Option<u128>);
impl tonic::server::UnaryService<Vec<u8>> for SleepUnary {
    type Response = Vec<u8>;
    type Future = std::pin::Pin<Box<dyn std::future::Future<Output = Result<tonic::Response<Vec<u8>>, tonic::Status>> + Send>>;
    fn call(&mut self, _r: tonic::Request<Vec<u8>>) -> Self::Future {
        let l = self.0;
        Box::pin(async move {
            wait(l).await;
            Ok(tonic::Response::new(vec![7]))
        })
    }
}

impl tower::Service<http::Request<tonic::body::Body>> for SleepSvc {
    type Response = http::Response<tonic::body::Body>;
    type Error = std::convert::Infallible;
    type Future = std::pin::Pin<Box<dyn std::future::Future<Output = Result<Self::Response, Self::Error>> + Send>>;
    fn poll_ready(&mut self, _cx: &mut std::task::Context<'_>) -> std::task::Poll<Result<(), Self::Error>> {
        std::task::Poll::Ready(Ok(()))
    }
    fn call(&mut self, req: http::Request<tonic::body::Body>) -> Self::Future {
        let l = self.0;
        Box::pin(async move {
            let mut grpc = tonic::server::Grpc::new(crate::c03::RawCodec);
            Ok(grpc.unary(SleepUnary(l), req).await)
        })
    }
}

struct DuplexConn(tokio::io::DuplexStream);
impl tonic::transport::server::Connected for DuplexConn {
    type ConnectInfo = ();
    fn connect_info(&self) {}
}
impl tokio::io::AsyncRead for DuplexConn {
    fn poll_read(mut self: std::pin::Pin<&mut Self>, cx: &mut std::task::Context<'_>, buf: &mut tokio::io::ReadBuf<'_>) -> std::task::Poll<std::io::Result<()>> {
        std::pin::Pin::new(&mut self.0).poll_read(cx, buf)
    }
}
impl tokio::io::AsyncWrite for DuplexConn {
    fn poll_write(mut self: std::pin::Pin<&mut Self>, cx: &mut std::task::Context<'_>, buf: &[u8]) -> std::task::Poll<std::io::Result<usize>> {
        std::pin::Pin::new(&mut self.0).poll_write(cx, buf)
    }
    fn poll_flush(mut self: std::pin::Pin<&mut Self>, cx: &mut std::task::Context<'_>) -> std::task::Poll<std::io::Result<()>> {
        std::pin::Pin::new(&mut self.0).poll_flush(cx)
    }
    fn poll_shutdown(mut self: std::pin::Pin<&mut Self>, cx: &mut std::task::Context<'_>) -> std::task::Poll<std::io::Result<()>> {
        std::pin::Pin::new(&mut self.0).poll_shutdown(cx)
    }
}

fn e2e_case(c: Caller, s: Option<u128>, e: Option<u128>, latency: u128) -> String {
    let mut req = tonic::Request::new(vec![1u8]);
    if !c.apply(&mut req) {
        return "not-a-header-value".into();
    }
    let rt = paused_rt();
    rt.block_on(async move {
        let (cli, srv) = tokio::io::duplex(64 * 1024);
        let mut builder = tonic::transport::Server::builder();
        if let Some(s) = s {
            builder = builder.timeout(dur(s));
        }
        let router = builder.add_service(SleepSvc(Some(latency)));
        // one connection, then the listener stays open (an ended `incoming` starts a shutdown)
        let incoming = {
            use tokio_stream::StreamExt;
            tokio_stream::iter(vec![Ok::<_, std::io::Error>(DuplexConn(srv))]).chain(tokio_stream::pending())
        };
        let (stop_tx, stop_rx) = tokio::sync::oneshot::channel::<()>();
        let server = tokio::spawn(async move {
            let _ = router
                .serve_with_incoming_shutdown(incoming, async move {
                    let _ = stop_rx.await;
                })
                .await;
        });
        let mut ep = tonic::transport::Endpoint::from_static("http://[::]:50051");
        if let Some(e) = e {
            ep = ep.timeout(dur(e));
        }
        let mut cli = Some(cli);
        let channel = match ep
            .connect_with_connector(tower::service_fn(move |_: http::Uri| {
                let c = cli.take();
                async move { c.map(hyper_util::rt::TokioIo::new).ok_or_else(|| std::io::Error::other("used")) }
            }))
            .await
        {
            Ok(ch) => ch,
            Err(_) => return "connect-failed".to_string(),
        };
        let mut grpc = tonic::client::Grpc::new(channel);
        let fut = async {
            if grpc.ready().await.is_err() {
                return "not-ready".to_string();
            }
            match grpc.unary(req, "/verif.Sleep/Unary".parse().unwrap(), crate::c03::RawCodec).await {
                Ok(_) => "inner".to_string(),
                Err(st) => format!("timeout {} {}", st.code() as i32, hex(st.message().as_bytes())),
            }
        };
        let out = match tokio::time::timeout(Duration::from_secs(1_000_000), fut).await {
            Ok(o) => o,
            Err(_) => "hang".to_string(),
        };
        let _ = stop_tx.send(());
        drop(grpc);
        let _ = tokio::time::timeout(Duration::from_secs(10), server).await;
        out
    })
}

pub fn gen_e2e(tier: &str, rng: &mut Rng) -> Vec<String> {
    let mut out = Vec::new();
    let ms = 1_000_000u128;
    let grid: Vec<Option<u128>> = vec![None, Some(20 * ms), Some(50 * ms), Some(1000 * ms)];
    for c in &grid {
        for s in &grid {
            for e in &grid {
                let mut lats: Vec<u128> = vec![0, 5 * ms, 5_000 * ms];
                for t in [c, s, e].into_iter().flatten() {
                    // strictly inside / outside each deadline (the instant itself is a scheduling race)
                    lats.push(*t - 3 * ms);
                    lats.push(*t + 3 * ms);
                }
                lats.sort();
                lats.dedup();
                for l in lats {
                    // skip latencies within 2 ms of any present deadline
                    if [c, s, e].into_iter().flatten().any(|t| (*t as i128 - l as i128).abs() < 2 * ms as i128) {
                        continue;
                    }
                    if tier == "thorough" || rng.chance(1, 2) {
                        out.push(format!("e2e {} {} {} {}", opt_tok(*c), opt_tok(*s), opt_tok(*e), l));
                    }
                }
            }
        }
    }
    out
}

// ===== which side enforces: one real tonic stack against a peer that does NOT enforce deadlines =====
//   cli <silent|stall|routes> <caller ns|none> <Endpoint::timeout ns|none> <latency ns|never>
//     a real `Channel` (with/without `Endpoint::timeout`), the caller's deadline set with
//     `Request::set_timeout`, over an in-memory duplex against
//       silent: a bare h2 server that accepts the request and sends its whole response (head, one
//               message, trailers grpc-status 0) after `latency`, or never;
//       stall:  a bare h2 server that sends the response head at once and the rest after `latency`, or never;
//       routes: tonic `Routes` served by hyper's http2 connection WITHOUT `transport::Server`'s
//               timeout layer, the handler answering after `latency`, or never.
//   srv <grpc-timeout ns|none> <Server::timeout ns|none> <handler latency ns|never>
//     a real `transport::Server` (with/without `.timeout`) against a bare h2 client that sends the
//     grpc-timeout header (written by hand, not by tonic) and enforces nothing itself.
// observed: `inner <t>` | `timeout <code> <hex message> <t>` | `pending`, `t` = virtual ns between
// issuing the call and its completion; `pending` = not completed within HORIZON of virtual time.

const HORIZON: Duration = Duration::from_secs(3600);

fn opt_ns(x: &str) -> Option<Option<u128>> {
    if x == "none" {
        Some(None)
    } else {
        x.parse().ok().map(Some)
    }
}
fn lat_ns(x: &str) -> Option<Option<u128>> {
    if x == "never" {
        Some(None)
    } else {
        x.parse().ok().map(Some)
    }
}
fn lat_tok(l: Option<u128>) -> String {
    match l {
        Some(l) => l.to_string(),
        None => "never".into(),
    }
}

#[derive(Clone, Copy, PartialEq)]
enum Peer {
    Silent,
    Stall,
    Routes,
}

/// gRPC response pieces a bare peer writes: one message `07`, then trailers `grpc-status: 0`.
fn ok_message() -> bytes::Bytes {
    bytes::Bytes::from_static(&[0, 0, 0, 0, 1, 7])
}
fn ok_trailers() -> HeaderMap {
    let mut t = HeaderMap::new();
    t.insert("grpc-status", HeaderValue::from_static("0"));
    t
}

/// A bare h2 server: no tonic code, no notion of grpc-timeout.
async fn bare_h2_peer(io: tokio::io::DuplexStream, stall: bool, latency: Option<u128>) {
    let Ok(mut conn) = h2::server::handshake(io).await else { return };
    while let Some(next) = conn.accept().await {
        let Ok((req, mut respond)) = next else { return };
        tokio::spawn(async move {
            let _keep_request_open = req;
            let head = http::Response::builder()
                .status(200)
                .header("content-type", "application/grpc")
                .body(())
                .unwrap();
            let mut stream = if stall {
                let Ok(s) = respond.send_response(head, false) else { return };
                wait(latency).await;
                s
            } else {
                wait(latency).await;
                let Ok(s) = respond.send_response(head, false) else { return };
                s
            };
            let _ = stream.send_data(ok_message(), false);
            let _ = stream.send_trailers(ok_trailers());
        });
    }
}

/// tonic `Routes` on hyper's http2 server connection: the service stack of `transport::Server`
/// (RecoverError / GrpcTimeout) is NOT there.
async fn routes_peer(io: tokio::io::DuplexStream, latency: Option<u128>) {
    let routes = tonic::service::Routes::new(SleepSvc(latency));
    let svc = hyper_util::service::TowerToHyperService::new(routes);
    let _ = hyper::server::conn::http2::Builder::new(hyper_util::rt::TokioExecutor::new())
        .timer(hyper_util::rt::TokioTimer::new())
        .serve_connection(hyper_util::rt::TokioIo::new(io), svc)
        .await;
}

fn cli_case(peer: Peer, c: Caller, e: Option<u128>, latency: Option<u128>) -> String {
    let mut req = tonic::Request::new(vec![1u8]);
    if !c.apply(&mut req) {
        return "not-a-header-value".into();
    }
    let rt = paused_rt();
    rt.block_on(async move {
        let (cli, srv) = tokio::io::duplex(64 * 1024);
        match peer {
            Peer::Silent => drop(tokio::spawn(bare_h2_peer(srv, false, latency))),
            Peer::Stall => drop(tokio::spawn(bare_h2_peer(srv, true, latency))),
            Peer::Routes => drop(tokio::spawn(routes_peer(srv, latency))),
        }
        let mut ep = tonic::transport::Endpoint::from_static("http://[::]:50051");
        if let Some(e) = e {
            ep = ep.timeout(dur(e));
        }
        let mut cli = Some(cli);
        let channel = match ep
            .connect_with_connector(tower::service_fn(move |_: http::Uri| {
                let c = cli.take();
                async move { c.map(hyper_util::rt::TokioIo::new).ok_or_else(|| std::io::Error::other("used")) }
            }))
            .await
        {
            Ok(ch) => ch,
            Err(_) => return "connect-failed".to_string(),
        };
        let mut grpc = tonic::client::Grpc::new(channel);
        let fut = async {
            if grpc.ready().await.is_err() {
                return "not-ready".to_string();
            }
            let start = tokio::time::Instant::now();
            let r = grpc.unary(req, "/verif.Sleep/Unary".parse().unwrap(), crate::c03::RawCodec).await;
            let t = start.elapsed().as_nanos();
            match r {
                Ok(_) => format!("inner {}", t),
                Err(st) => format!("timeout {} {} {}", st.code() as i32, hex(st.message().as_bytes()), t),
            }
        };
        match tokio::time::timeout(HORIZON, fut).await {
            Ok(o) => o,
            Err(_) => "pending".to_string(),
        }
    })
}

/// A grpc-timeout value written by hand (finest unit that holds the duration exactly in 8 digits).
fn hand_timeout(ns: u128) -> Option<String> {
    for (u, k) in UNITS {
        if ns % k == 0 && ns / k <= 99_999_999 {
            return Some(format!("{}{}", ns / k, u as char));
        }
    }
    None
}

fn srv_case(h: Caller, s: Option<u128>, latency: Option<u128>) -> String {
    let Some(hv) = h.by_hand() else { return "not-a-header-value".into() };
    let rt = paused_rt();
    rt.block_on(async move {
        let (cli, srv) = tokio::io::duplex(64 * 1024);
        let mut builder = tonic::transport::Server::builder();
        if let Some(s) = s {
            builder = builder.timeout(dur(s));
        }
        let router = builder.add_service(SleepSvc(latency));
        let incoming = {
            use tokio_stream::StreamExt;
            tokio_stream::iter(vec![Ok::<_, std::io::Error>(DuplexConn(srv))]).chain(tokio_stream::pending())
        };
        tokio::spawn(async move {
            let _ = router.serve_with_incoming(incoming).await;
        });
        let fut = async {
            let Ok((h2c, conn)) = h2::client::handshake(cli).await else { return "connect-failed".to_string() };
            tokio::spawn(async move {
                let _ = conn.await;
            });
            let Ok(mut h2c) = h2c.ready().await else { return "not-ready".to_string() };
            let mut b = http::Request::builder()
                .method("POST")
                .uri("http://localhost/verif.Sleep/Unary")
                .header("content-type", "application/grpc")
                .header("te", "trailers");
            for v in &hv {
                b = b.header("grpc-timeout", v.clone());
            }
            let start = tokio::time::Instant::now();
            let Ok((resp, mut send)) = h2c.send_request(b.body(()).unwrap(), false) else { return "send-failed".to_string() };
            if send.send_data(bytes::Bytes::from_static(&[0, 0, 0, 0, 1, 1]), true).is_err() {
                return "send-failed".to_string();
            }
            let resp = match resp.await {
                Ok(r) => r,
                Err(_) => return format!("reset {}", start.elapsed().as_nanos()),
            };
            let (parts, mut body) = resp.into_parts();
            // trailers-only response: the status is in the head
            let mut status = tonic::Status::from_header_map(&parts.headers);
            if status.is_none() {
                while let Some(chunk) = body.data().await {
                    match chunk {
                        Ok(c) => {
                            let _ = body.flow_control().release_capacity(c.len());
                        }
                        Err(_) => return format!("reset {}", start.elapsed().as_nanos()),
                    }
                }
                match body.trailers().await {
                    Ok(Some(t)) => status = tonic::Status::from_header_map(&t),
                    Ok(None) => return format!("no-trailers {}", start.elapsed().as_nanos()),
                    Err(_) => return format!("reset {}", start.elapsed().as_nanos()),
                }
            }
            let t = start.elapsed().as_nanos();
            match status {
                Some(st) if st.code() == tonic::Code::Ok => format!("inner {}", t),
                Some(st) => format!("timeout {} {} {}", st.code() as i32, hex(st.message().as_bytes()), t),
                None => format!("no-status {}", t),
            }
        };
        match tokio::time::timeout(HORIZON, fut).await {
            Ok(o) => o,
            Err(_) => "pending".to_string(),
        }
    })
}

pub fn gen_sided(tier: &str, rng: &mut Rng) -> Vec<String> {
    let thorough = tier == "thorough";
    let mut out = Vec::new();
    let ms = 1_000_000u128;
    // corpus: the caller's deadline alone, against a peer that never answers / answers late
    for peer in ["silent", "stall", "routes"] {
        out.push(format!("cli {} {} none never", peer, 300 * ms));
        out.push(format!("cli {} {} none {}", peer, 300 * ms, 3000 * ms));
    }
    out.push(format!("srv {} none never", 300 * ms));
    let grid: Vec<Option<u128>> = vec![None, Some(20 * ms), Some(50 * ms), Some(1000 * ms)];
    let lats_for = |ds: &[Option<u128>]| -> Vec<Option<u128>> {
        let mut lats: Vec<u128> = vec![0, 5 * ms, 5_000 * ms];
        for t in ds.iter().flatten() {
            // strictly inside / outside each deadline (the instant itself is a scheduling race)
            lats.push(*t - ms);
            lats.push(*t + ms);
        }
        lats.sort();
        lats.dedup();
        let mut v: Vec<Option<u128>> = lats
            .into_iter()
            .filter(|l| !ds.iter().flatten().any(|t| t == l))
            .map(Some)
            .collect();
        v.push(None);
        v
    };
    for a in &grid {
        for b in &grid {
            for l in lats_for(&[*a, *b]) {
                for peer in ["silent", "stall", "routes"] {
                    out.push(format!("cli {} {} {} {}", peer, opt_tok(*a), opt_tok(*b), lat_tok(l)));
                }
                out.push(format!("srv {} {} {}", opt_tok(*a), opt_tok(*b), lat_tok(l)));
            }
        }
    }
    // random deadlines (whole ms) and latencies around them
    let nrand = if thorough { 600 } else { 40 };
    for _ in 0..nrand {
        let t = |rng: &mut Rng| -> Option<u128> {
            if rng.chance(1, 3) {
                None
            } else {
                Some(rng.range(1, 400) as u128 * ms)
            }
        };
        let a = t(rng);
        let b = t(rng);
        let l = match rng.below(4) {
            0 => None,
            1 => Some(rng.below(500) as u128 * ms),
            _ => match [a, b].into_iter().flatten().min() {
                Some(m) => Some(if rng.chance(1, 2) { m + rng.range(1, 3) as u128 * ms } else { m.saturating_sub(rng.range(1, 3) as u128 * ms) }),
                None => Some(rng.below(500) as u128 * ms),
            },
        };
        if let Some(l) = l {
            if [a, b].into_iter().flatten().any(|t| t == l) {
                continue;
            }
        }
        let peer = *rng.pick(&["silent", "stall", "routes", "srv"]);
        if peer == "srv" {
            out.push(format!("srv {} {} {}", opt_tok(a), opt_tok(b), lat_tok(l)));
        } else {
            out.push(format!("cli {} {} {} {}", peer, opt_tok(a), opt_tok(b), lat_tok(l)));
        }
    }
    out
}

// ===== sequences: set_timeout called several times, builder methods in any order =====
//   seq <c1,c2,..|-> <server ops|-> <endpoint ops|-> <handler latency ns>
// ops: comma list of t<ns> (.timeout), k<ns> (Endpoint::connect_timeout), l (Server::layer), and
// single letters for other builder methods (see `server_op` / `endpoint_op`).  Real
// `transport::Server` and real `Channel` over a duplex, as in `e2e`; observed as in `cli`.

#[derive(Clone, Copy, PartialEq)]
enum Op {
    Timeout(u128),
    ConnectTimeout(u128),
    Layer,
    Other(char),
}

fn ops(x: &str) -> Option<Vec<Op>> {
    if x == "-" {
        return Some(vec![]);
    }
    x.split(',')
        .map(|o| {
            let mut ch = o.chars();
            let c = ch.next()?;
            let rest = ch.as_str();
            match c {
                't' => rest.parse().ok().map(Op::Timeout),
                'k' => rest.parse().ok().map(Op::ConnectTimeout),
                'l' if rest.is_empty() => Some(Op::Layer),
                c if rest.is_empty() && c.is_ascii_lowercase() => Some(Op::Other(c)),
                _ => None,
            }
        })
        .collect()
}

fn server_ops<L>(mut b: tonic::transport::Server<L>, ops: &[Op]) -> Option<tonic::transport::Server<L>> {
    for op in ops {
        b = match op {
            Op::Timeout(t) => b.timeout(dur(*t)),
            Op::Other('c') => b.concurrency_limit_per_connection(8),
            Op::Other('n') => b.tcp_nodelay(true),
            Op::Other('w') => b.initial_stream_window_size(Some(1 << 20)),
            Op::Other('m') => b.max_concurrent_streams(Some(16)),
            Op::Other('a') => b.accept_http1(false),
            Op::Other('f') => b.max_frame_size(Some(32768)),
            Op::Other('h') => b.http2_adaptive_window(Some(false)),
            Op::Other('p') => b.tcp_keepalive(Some(Duration::from_secs(5))),
            Op::Other('i') => b.http2_max_header_list_size(Some(16384)),
            _ => return None,
        };
    }
    Some(b)
}

fn endpoint_ops(mut ep: tonic::transport::Endpoint, ops: &[Op]) -> Option<tonic::transport::Endpoint> {
    for op in ops {
        ep = match op {
            Op::Timeout(t) => ep.timeout(dur(*t)),
            Op::ConnectTimeout(t) => ep.connect_timeout(dur(*t)),
            Op::Other('c') => ep.concurrency_limit(8),
            Op::Other('u') => ep.user_agent("verif/1").ok()?,
            Op::Other('o') => ep.origin("http://origin.test".parse().unwrap()),
            Op::Other('n') => ep.tcp_nodelay(true),
            Op::Other('w') => ep.initial_stream_window_size(Some(1 << 20)),
            Op::Other('b') => ep.buffer_size(Some(8)),
            Op::Other('p') => ep.tcp_keepalive(Some(Duration::from_secs(5))),
            Op::Other('h') => ep.http2_adaptive_window(false),
            Op::Other('i') => ep.http2_max_header_list_size(16384),
            _ => return None,
        };
    }
    Some(ep)
}

fn seq_case(cs: Vec<u128>, sops: Vec<Op>, eops: Vec<Op>, latency: u128) -> String {
    let mut req = tonic::Request::new(vec![1u8]);
    for c in &cs {
        req.set_timeout(dur(*c));
    }
    let rt = paused_rt();
    rt.block_on(async move {
        let (cli, srv) = tokio::io::duplex(64 * 1024);
        let incoming = {
            use tokio_stream::StreamExt;
            tokio_stream::iter(vec![Ok::<_, std::io::Error>(DuplexConn(srv))]).chain(tokio_stream::pending())
        };
        macro_rules! serve {
            ($b:expr) => {{
                let router = $b.add_service(SleepSvc(Some(latency)));
                tokio::spawn(async move {
                    let _ = router.serve_with_incoming(incoming).await;
                });
            }};
        }
        // `.layer` changes the builder's type: at most two of them, anywhere in the sequence
        let segs: Vec<&[Op]> = sops.split(|o| *o == Op::Layer).collect();
        let Some(b0) = server_ops(tonic::transport::Server::builder(), segs[0]) else { return "bad-case".to_string() };
        match segs.len() {
            1 => {
                let mut b0 = b0;
                serve!(b0)
            }
            2 => {
                let Some(mut b1) = server_ops(b0.layer(tower_layer::Identity::new()), segs[1]) else { return "bad-case".to_string() };
                serve!(b1)
            }
            3 => {
                let Some(b1) = server_ops(b0.layer(tower_layer::Identity::new()), segs[1]) else { return "bad-case".to_string() };
                let Some(mut b2) = server_ops(b1.layer(tower_layer::Identity::new()), segs[2]) else { return "bad-case".to_string() };
                serve!(b2)
            }
            _ => return "bad-case".to_string(),
        }
        let Some(ep) = endpoint_ops(tonic::transport::Endpoint::from_static("http://[::]:50051"), &eops) else {
            return "bad-case".to_string();
        };
        let mut cli = Some(cli);
        let channel = match ep
            .connect_with_connector(tower::service_fn(move |_: http::Uri| {
                let c = cli.take();
                async move { c.map(hyper_util::rt::TokioIo::new).ok_or_else(|| std::io::Error::other("used")) }
            }))
            .await
        {
            Ok(ch) => ch,
            Err(_) => return "connect-failed".to_string(),
        };
        let mut grpc = tonic::client::Grpc::new(channel);
        let fut = async {
            if grpc.ready().await.is_err() {
                return "not-ready".to_string();
            }
            let start = tokio::time::Instant::now();
            let r = grpc.unary(req, "/verif.Sleep/Unary".parse().unwrap(), crate::c03::RawCodec).await;
            let t = start.elapsed().as_nanos();
            match r {
                Ok(_) => format!("inner {}", t),
                Err(st) => format!("timeout {} {} {}", st.code() as i32, hex(st.message().as_bytes()), t),
            }
        };
        match tokio::time::timeout(HORIZON, fut).await {
            Ok(o) => o,
            Err(_) => "pending".to_string(),
        }
    })
}

/// Generator-side only: what `d` amounts to on the wire (used to keep cases away from the
/// granularity of tokio's timer wheel, never for a verdict).
fn on_wire(d: u128) -> u128 {
    for (_, k) in UNITS {
        if d / k <= 99_999_999 {
            return d / k * k;
        }
    }
    d
}
/// tokio's timers fire on whole milliseconds (deadlines are rounded up); two events inside the
/// same millisecond are not ordered by their nanoseconds.
fn same_tick(a: u128, b: u128) -> bool {
    a != b && a.div_ceil(1_000_000) == b.div_ceil(1_000_000)
}

/// Generator-side only (never used for a verdict): the ns a well-formed value stands for.
fn denote_for_filter(v: &[u8]) -> Option<u128> {
    let (u, ds) = v.split_last()?;
    let k = UNITS.iter().find(|(b, _)| b == u)?.1;
    if ds.is_empty() || ds.len() > 8 || !ds.iter().all(|b| b.is_ascii_digit()) {
        return None;
    }
    Some(std::str::from_utf8(ds).ok()?.parse::<u128>().ok()? * k)
}

fn raw_tok(vals: &[&[u8]]) -> String {
    vals.iter().map(|v| hex(v)).collect::<Vec<_>>().join(",")
}

/// grpc-timeout values that are not spec-conformant (must be ignored) …
const MALFORMED: [&[u8]; 17] = [
    b"+5S", b"", b"123456789S", b"5s", b"5X", b"5", b"S", b" 5S", b"5 S", b"5S ", b"5S\t", b"-1S", b"5\xc3\xa9", b"\xff", b"1.5S",
    b"0x5S", b"5SS",
];
/// … and conformant ones with what they denote (ns)
const CONFORMANT: [(&[u8], u128); 5] =
    [(b"5S", 5_000_000_000), (b"20m", 20_000_000), (b"00000020m", 20_000_000), (b"0n", 0), (b"20000u", 20_000_000)];

pub fn gen_more(tier: &str, rng: &mut Rng) -> Vec<String> {
    let thorough = tier == "thorough";
    let mut out = Vec::new();
    let ms = 1_000_000u128;
    // ---- A3: encoder around 2^64 ns, 2^63 ns, u64::MAX s (beyond the range: the `expect` panics)
    let p64 = 1u128 << 64;
    for d in [p64, p64 - 1, p64 + 1, p64 - 100_000_000, p64 + 100_000_000, 1u128 << 63, (1u128 << 63) + 1, (1u128 << 32) * 1_000_000_000, u64::MAX as u128 * 1_000_000_000] {
        out.push(format!("enc {}", d));
    }
    // ---- A4: set_timeout several times
    for (a, b) in [(10_000 * ms, 1_000 * ms), (1_000 * ms, 10_000 * ms), (5, 7), (p64, 3), (3, p64), (1, 3_600_000_000_000 * 100), (20 * ms, 20 * ms)] {
        out.push(format!("encs {} {}", a, b));
    }
    out.push(format!("encs {}", 20 * ms));
    out.push("encs 1 2 3 4".to_string());
    for _ in 0..(if thorough { 400 } else { 40 }) {
        let n = rng.range(2, 4);
        let ds: Vec<String> = (0..n)
            .map(|_| {
                let (_, k) = *rng.pick(&UNITS);
                (rng.below(100_000_000) as u128 * k + rng.below(k as u64) as u128).to_string()
            })
            .collect();
        out.push(format!("encs {}", ds.join(" ")));
    }
    // ---- A5: a stray byte after the unit / before the digits, every unit, every byte
    for (u, _) in UNITS {
        for b in 0u16..=255 {
            let b = b as u8;
            // bytes an HTTP header value cannot carry never reach the parser
            if !((b >= 32 && b != 127) || b == 9) {
                continue;
            }
            out.push(format!("parse {}", hex(&[b'7', u, b])));
            out.push(format!("parse {}", hex(&[b, b'7', u])));
        }
    }
    // ---- C1: caller durations that are NOT representable exactly (the wire carries less)
    let mut inexact: Vec<u128> = vec![
        100 * ms + 500,           // 100000u
        1_000 * ms + 500,         // 1000000u   (reviewer's witness)
        1_000 * ms + 999,
        99_999 * ms + 999_999,    // 99999999u -> 99 999.999 ms: not a whole ms, only far latencies
        100_000 * ms + 700_000,   // 100000m
        100_000 * ms + 1,
        200_000 * ms + 999_999,
        100_000_000 * ms + 900 * ms, // 100000S
    ];
    for _ in 0..(if thorough { 60 } else { 6 }) {
        inexact.push((100 + rng.below(900) as u128) * ms + rng.range(1, 999) as u128);
        inexact.push((100_000 + rng.below(900_000) as u128) * ms + rng.range(1, 999_999) as u128);
    }
    for c in &inexact {
        let w = on_wire(*c);
        let mut lats = vec![w.saturating_sub(ms), w, w + 400, w + ms, *c, *c + ms, w / 2];
        if *c > 100 {
            lats.push(*c - 100);
        }
        lats.sort();
        lats.dedup();
        for l in lats {
            if same_tick(w, l) {
                continue;
            }
            out.push(format!("run {} none {}", c, l));
            if w % ms == 0 && l % ms == 0 && l != w && w < 1_000_000 * ms {
                out.push(format!("e2e {} none none {}", c, l));
                out.push(format!("cli silent {} none {}", c, l));
                out.push(format!("seq {} - - {}", c, l));
            }
        }
        if w % ms == 0 && w < 3_000_000 * ms {
            out.push(format!("cli silent {} none never", c));
        }
    }
    // the reviewer's literal witness (w = 1 s < l: cut)
    out.push("run 1000000500 none 1000000400".to_string());
    // ---- A2: raw header values through the middleware / the stacks
    let conf: Vec<Option<u128>> = vec![None, Some(20 * ms), Some(50 * ms)];
    let lat_grid = |ds: &[u128]| -> Vec<u128> {
        let mut l = vec![0, 5 * ms, 30 * ms, 7_000 * ms];
        for d in ds {
            if *d >= ms {
                l.push(*d - ms);
            }
            l.push(*d + ms);
        }
        l.sort();
        l.dedup();
        l.into_iter().filter(|x| !ds.contains(x)).collect()
    };
    for v in MALFORMED {
        for s in &conf {
            for l in lat_grid(&s.iter().copied().collect::<Vec<_>>()) {
                out.push(format!("run {} {} {}", raw_tok(&[v]), opt_tok(*s), l));
            }
        }
        // through the real stacks: bare h2 client -> transport::Server; Channel -> bare h2 server; both tonic
        for (s, l) in [(None, Some(5 * ms)), (None, None), (Some(20 * ms), Some(19 * ms)), (Some(20 * ms), Some(21 * ms)), (Some(20 * ms), None)] {
            out.push(format!("srv {} {} {}", raw_tok(&[v]), opt_tok(s), lat_tok(l)));
            out.push(format!("cli silent {} {} {}", raw_tok(&[v]), opt_tok(s), lat_tok(l)));
            if let Some(l) = l {
                out.push(format!("e2e {} {} none {}", raw_tok(&[v]), opt_tok(s), l));
            }
        }
    }
    for (v, d) in CONFORMANT {
        for s in &conf {
            let mut ds: Vec<u128> = s.iter().copied().collect();
            ds.push(d);
            for l in lat_grid(&ds) {
                out.push(format!("run {} {} {}", raw_tok(&[v]), opt_tok(*s), l));
            }
        }
        out.push(format!("srv {} none never", raw_tok(&[v])));
        out.push(format!("cli routes {} none never", raw_tok(&[v])));
    }
    // several values in one header: malformed + conformant in both orders, two conformant in both orders
    let dups: [[&[u8]; 2]; 8] =
        [[b"+5S", b"20m"], [b"20m", b"+5S"], [b"20m", b"50m"], [b"50m", b"20m"], [b"", b"20m"], [b"20m", b""], [b"5X", b"+5S"], [b"20m", b"20m"]];
    for d in dups {
        for s in [None, Some(35 * ms)] {
            for l in [5 * ms, 19 * ms, 21 * ms, 34 * ms, 36 * ms, 49 * ms, 51 * ms] {
                out.push(format!("run {} {} {}", raw_tok(&d), opt_tok(s), l));
            }
        }
        out.push(format!("srv {} none {}", raw_tok(&d), 30 * ms));
        out.push(format!("srv {} none never", raw_tok(&d)));
    }
    if thorough {
        // random visible-ASCII values
        let alphabet: Vec<u8> = b"0123456789+- nHMSmuXx\t.".to_vec();
        for _ in 0..1500 {
            let n = rng.range(0, 5) as usize;
            let mut v: Vec<u8> = (0..n).map(|_| *rng.pick(&alphabet)).collect();
            if rng.chance(1, 2) {
                v = format!("{}{}", rng.range(1, 60), *rng.pick(&[b'm', b'u', b'n', b'S']) as char).into_bytes();
                if rng.chance(1, 2) {
                    let at = rng.below(v.len() as u64 + 1) as usize;
                    v.insert(at, *rng.pick(&alphabet));
                }
            }
            let s = *rng.pick(&conf);
            let l = (rng.below(70) as u128) * ms + ms / 2; // half-ms: never the instant of a whole-ms deadline
            if !v.iter().all(|b| (*b >= 32 && *b != 127) || *b == 9) {
                continue;
            }
            // a conformant sub-ms value (u/n units) and the latency may fall into one timer tick
            if let Some(w) = denote_for_filter(&v) {
                if w < l && same_tick(w, l) {
                    continue;
                }
            }
            out.push(format!("run {} {} {}", raw_tok(&[&v]), opt_tok(s), l));
        }
    }
    // ---- A4: builder orders
    let t = 20 * ms;
    let server_seqs = [
        format!("t{t}"),
        format!("t{t},l"),
        format!("l,t{t}"),
        format!("t{t},l,l"),
        format!("t{t},c,n,w,m,a,f,h,p,i"),
        format!("c,n,w,m,t{t},a,f,h,p,i"),
        format!("t{},t{t}", 1000 * ms),
        format!("t{},t{}", t, 1000 * ms),
        format!("t{},l,t{t}", 1000 * ms),
        format!("t{t},c,l,n"),
        "l".to_string(),
        "c,l,n".to_string(),
        "-".to_string(),
    ];
    for so in &server_seqs {
        for l in [5 * ms, t - ms, t + ms, 999 * ms, 1001 * ms] {
            out.push(format!("seq - {} - {}", so, l));
        }
    }
    let endpoint_seqs = [
        format!("t{t}"),
        format!("t{t},k{}", ms),
        format!("k{},t{t}", ms),
        format!("k{}", ms),
        format!("t{t},c,u,o,n,w,b,p,h,i"),
        format!("c,u,o,n,w,t{t},b,p,h,i"),
        format!("t{},t{t}", 1000 * ms),
        format!("t{},t{}", t, 1000 * ms),
        format!("t{t},k{}", 1000 * ms),
        "c,u,o".to_string(),
    ];
    for eo in &endpoint_seqs {
        for l in [5 * ms, t - ms, t + ms, 999 * ms, 1001 * ms] {
            out.push(format!("seq - - {} {}", eo, l));
        }
    }
    // set_timeout twice, second shorter / longer, alone and against configured timeouts
    for (a, b) in [(10_000 * ms, 1_000 * ms), (1_000 * ms, 10_000 * ms), (20 * ms, 50 * ms), (50 * ms, 20 * ms)] {
        for l in [b - ms, b + ms, a - ms, a + ms] {
            if l == a || l == b {
                continue;
            }
            out.push(format!("seq {},{} - - {}", a, b, l));
            out.push(format!("seq {},{} t{},l k{},t{} {}", a, b, 30_000 * ms, ms, 30_000 * ms, l));
        }
    }
    let nrand = if thorough { 400 } else { 30 };
    for _ in 0..nrand {
        let mut deadlines: Vec<u128> = Vec::new();
        let seq = |rng: &mut Rng, server: bool, deadlines: &mut Vec<u128>| -> String {
            let n = rng.below(5);
            let mut layers = 0;
            let mut last: Option<u128> = None;
            let toks: Vec<String> = (0..n)
                .map(|_| match rng.below(4) {
                    0 => {
                        let t = rng.range(2, 120) as u128 * ms;
                        last = Some(t);
                        format!("t{}", t)
                    }
                    1 if server && layers < 2 => {
                        layers += 1;
                        "l".to_string()
                    }
                    1 if !server => format!("k{}", rng.range(1, 120) as u128 * ms),
                    _ => (*rng.pick(if server { &b"cnwmafhpi"[..] } else { &b"cuonwbphi"[..] }) as char).to_string(),
                })
                .collect();
            deadlines.extend(last);
            if toks.is_empty() {
                "-".to_string()
            } else {
                toks.join(",")
            }
        };
        let so = seq(rng, true, &mut deadlines);
        let eo = seq(rng, false, &mut deadlines);
        let nc = rng.below(3);
        let cs: Vec<u128> = (0..nc).map(|_| rng.range(2, 120) as u128 * ms).collect();
        deadlines.extend(cs.last().copied());
        let l = match deadlines.iter().min() {
            Some(m) if rng.chance(2, 3) => {
                if rng.chance(1, 2) {
                    m + rng.range(1, 3) as u128 * ms
                } else {
                    m - ms
                }
            }
            _ => rng.range(0, 150) as u128 * ms,
        };
        if deadlines.contains(&l) {
            continue;
        }
        let ctok = if cs.is_empty() { "-".to_string() } else { cs.iter().map(|c| c.to_string()).collect::<Vec<_>>().join(",") };
        out.push(format!("seq {} {} {} {}", ctok, so, eo, l));
    }
    out
}

// ===== late poll: the caller dispatches a call and first polls its response future `busy` later =====
//   runl <caller> <configured ns|none> <latency ns|never> <busy ns>
//     the `GrpcTimeout` middleware (hook) under `RecoverError`, used through the tower `Service` API:
//     `ready().await`, `call(req)` (= dispatch, time 0), `sleep(busy).await`, then the future is awaited.
//     The wrapped service's answer is due `latency` after DISPATCH (its `Sleep` is created inside
//     `call`, like hyper's `send_request`, which sends at once and hands back a receiver).
//   clil <silent|routes> <caller> <Endpoint::timeout ns|none> <latency ns|never> <busy ns>
//     a real `Channel` used as a `tower::Service`: `poll_ready`, `call` (the buffer's worker runs the
//     client stack, incl. `GrpcTimeout::call`, and sends the request while the caller is busy),
//     `sleep(busy).await`, then the response future is awaited and the reply read to its end.
//   e2el <caller> <Server::timeout> <Endpoint::timeout> <handler latency ns> <busy ns>
//     the same caller against a real `transport::Server`.
// observed: `inner <t>` | `timeout <code> <hex message> <t>` | `pending`; `t` = virtual ns from
// dispatch to the moment the caller has the outcome.

fn runl_case(c: Caller, s: Option<u128>, latency: Option<u128>, busy: u128) -> String {
    let mut treq = tonic::Request::new(());
    if !c.apply(&mut treq) {
        return "not-a-header-value".into();
    }
    let rt = paused_rt();
    rt.block_on(async move {
        let inner = tower::service_fn(move |_req: http::Request<()>| {
            // created in `call`: the answer is due `latency` after dispatch, polled or not
            let due = latency.map(|l| tokio::time::sleep(dur(l)));
            async move {
                match due {
                    Some(d) => d.await,
                    None => std::future::pending::<()>().await,
                }
                Ok::<_, tonic::Status>(http::Response::new(()))
            }
        });
        let mut svc = tonic::service::RecoverError::new(GrpcTimeoutHook::new(inner, s.map(dur)));
        let mut req = http::Request::new(());
        *req.headers_mut() = treq.metadata().clone().into_headers();
        let svc = svc.ready().await.unwrap();
        let start = tokio::time::Instant::now();
        let fut = svc.call(req);
        if busy > 0 {
            tokio::time::sleep(dur(busy)).await;
        }
        match tokio::time::timeout(HORIZON, fut).await {
            Err(_) => "pending".into(),
            Ok(Ok(resp)) => {
                let t = start.elapsed().as_nanos();
                match tonic::Status::from_header_map(resp.headers()) {
                    None => format!("inner {}", t),
                    Some(st) => format!("timeout {} {} {}", st.code() as i32, hex(st.message().as_bytes()), t),
                }
            }
            Ok(Err(e)) => {
                let st = tonic::Status::from_error(e);
                format!("unrecovered {} {} {}", st.code() as i32, hex(st.message().as_bytes()), start.elapsed().as_nanos())
            }
        }
    })
}

/// The caller of `clil` / `e2el`: tower `Service` API on a `Channel`, busy between `call` and the
/// first poll of the response future.
async fn late_caller(mut channel: tonic::transport::Channel, headers: HeaderMap, busy: u128) -> String {
    use http_body_util::BodyExt;
    let body = tonic::body::Body::new(http_body_util::Full::new(bytes::Bytes::from_static(&[0, 0, 0, 0, 1, 1])));
    let mut req = http::Request::builder()
        .method("POST")
        .uri("http://[::]:50051/verif.Sleep/Unary")
        .header("content-type", "application/grpc")
        .header("te", "trailers")
        .body(body)
        .unwrap();
    for (k, v) in headers.iter() {
        req.headers_mut().append(k.clone(), v.clone());
    }
    let fut = async {
        if std::future::poll_fn(|cx| channel.poll_ready(cx)).await.is_err() {
            return "not-ready".to_string();
        }
        let start = tokio::time::Instant::now();
        let call = channel.call(req);
        if busy > 0 {
            tokio::time::sleep(dur(busy)).await;
        }
        let status = match call.await {
            Err(e) => Some(tonic::Status::from_error(Box::new(e))),
            Ok(resp) => {
                let (parts, body) = resp.into_parts();
                match tonic::Status::from_header_map(&parts.headers) {
                    // trailers-only reply: the status is in the head
                    Some(st) => Some(st),
                    None => match body.collect().await {
                        Ok(c) => c.trailers().and_then(tonic::Status::from_header_map),
                        Err(st) => Some(st),
                    },
                }
            }
        };
        let t = start.elapsed().as_nanos();
        match status {
            Some(st) if st.code() == tonic::Code::Ok => format!("inner {}", t),
            Some(st) => format!("timeout {} {} {}", st.code() as i32, hex(st.message().as_bytes()), t),
            None => format!("no-status {}", t),
        }
    };
    match tokio::time::timeout(HORIZON, fut).await {
        Ok(o) => o,
        Err(_) => "pending".to_string(),
    }
}

fn clil_case(peer: Peer, c: Caller, e: Option<u128>, latency: Option<u128>, busy: u128) -> String {
    let mut treq = tonic::Request::new(());
    if !c.apply(&mut treq) {
        return "not-a-header-value".into();
    }
    let headers = treq.metadata().clone().into_headers();
    let rt = paused_rt();
    rt.block_on(async move {
        let (cli, srv) = tokio::io::duplex(64 * 1024);
        match peer {
            Peer::Silent => drop(tokio::spawn(bare_h2_peer(srv, false, latency))),
            Peer::Stall => drop(tokio::spawn(bare_h2_peer(srv, true, latency))),
            Peer::Routes => drop(tokio::spawn(routes_peer(srv, latency))),
        }
        let mut ep = tonic::transport::Endpoint::from_static("http://[::]:50051");
        if let Some(e) = e {
            ep = ep.timeout(dur(e));
        }
        let mut cli = Some(cli);
        let channel = match ep
            .connect_with_connector(tower::service_fn(move |_: http::Uri| {
                let c = cli.take();
                async move { c.map(hyper_util::rt::TokioIo::new).ok_or_else(|| std::io::Error::other("used")) }
            }))
            .await
        {
            Ok(ch) => ch,
            Err(_) => return "connect-failed".to_string(),
        };
        late_caller(channel, headers, busy).await
    })
}

fn e2el_case(c: Caller, s: Option<u128>, e: Option<u128>, latency: u128, busy: u128) -> String {
    let mut treq = tonic::Request::new(());
    if !c.apply(&mut treq) {
        return "not-a-header-value".into();
    }
    let headers = treq.metadata().clone().into_headers();
    let rt = paused_rt();
    rt.block_on(async move {
        let (cli, srv) = tokio::io::duplex(64 * 1024);
        let mut builder = tonic::transport::Server::builder();
        if let Some(s) = s {
            builder = builder.timeout(dur(s));
        }
        let router = builder.add_service(SleepSvc(Some(latency)));
        let incoming = {
            use tokio_stream::StreamExt;
            tokio_stream::iter(vec![Ok::<_, std::io::Error>(DuplexConn(srv))]).chain(tokio_stream::pending())
        };
        tokio::spawn(async move {
            let _ = router.serve_with_incoming(incoming).await;
        });
        let mut ep = tonic::transport::Endpoint::from_static("http://[::]:50051");
        if let Some(e) = e {
            ep = ep.timeout(dur(e));
        }
        let mut cli = Some(cli);
        let channel = match ep
            .connect_with_connector(tower::service_fn(move |_: http::Uri| {
                let c = cli.take();
                async move { c.map(hyper_util::rt::TokioIo::new).ok_or_else(|| std::io::Error::other("used")) }
            }))
            .await
        {
            Ok(ch) => ch,
            Err(_) => return "connect-failed".to_string(),
        };
        late_caller(channel, headers, busy).await
    })
}

/// `busy` values for one (shortest deadline, latency) pair: 0, inside both, around each boundary
/// (the instant itself and one timer tick = 1 ms either side), between the two, beyond both.
fn busy_grid(deadline: Option<u128>, latency: Option<u128>) -> Vec<u128> {
    let ms = 1_000_000u128;
    let mut b: Vec<u128> = vec![0, ms];
    let marks: Vec<u128> = [deadline, latency].into_iter().flatten().collect();
    for m in &marks {
        b.push(m / 2 / ms * ms);
        b.push(m.saturating_sub(ms));
        b.push(*m);
        b.push(m + ms);
    }
    if let (Some(t), Some(l)) = (deadline, latency) {
        b.push((t + l) / 2 / ms * ms); // between the two
    }
    let top = marks.iter().copied().max().unwrap_or(20 * ms);
    b.push(top + 50 * ms);
    b.push(top * 3 + 7 * ms);
    b.sort();
    b.dedup();
    b
}

/// Instants at which two TASKS act at once, so that what the caller's task finds depends on the
/// order in which tokio runs them (the spec accepts either result or names the tie-break, the
/// model predicts one): the reply is due exactly at a deadline (as for `cli` / `e2e`: "the instant
/// itself is a scheduling race"), or the reply is due exactly when the caller first polls while a
/// deadline has already passed.  Not generated for the kinds where the reply comes from another
/// task (`runl` is single-task: every instant is deterministic there and is generated).
fn racy(deadlines: &[Option<u128>], latency: Option<u128>, busy: u128) -> bool {
    let Some(l) = latency else { return false };
    deadlines.iter().flatten().any(|t| *t == l) || (l == busy && deadlines.iter().flatten().any(|t| *t <= busy))
}

pub fn gen_late(tier: &str, rng: &mut Rng) -> Vec<String> {
    let thorough = tier == "thorough";
    let mut out = Vec::new();
    let ms = 1_000_000u128;
    // corpus: the witness of seed C09d (timeout 100 ms, answer after 350 ms, caller busy 300 ms) on each kind,
    // (= the Lean witness of C09_timer_from_first_poll_fails, in ms: timers tick in whole ms)
    out.push(format!("runl none {} {} {}", 100 * ms, 350 * ms, 300 * ms));
    out.push(format!("runl {} none {} {}", 100 * ms, 350 * ms, 300 * ms));
    out.push(format!("clil silent none {} {} {}", 100 * ms, 350 * ms, 300 * ms));
    out.push(format!("clil routes {} none {} {}", 100 * ms, 350 * ms, 300 * ms));
    out.push(format!("e2el none none {} {} {}", 100 * ms, 350 * ms, 300 * ms));
    out.push(format!("e2el none {} none {} {}", 100 * ms, 350 * ms, 300 * ms));
    let min2 = |a: Option<u128>, b: Option<u128>| [a, b].into_iter().flatten().min();
    // ---- runl: the middleware alone (no other task involved: every instant is deterministic)
    let pairs: [(Option<u128>, Option<u128>); 6] = [
        (None, Some(100 * ms)),
        (Some(100 * ms), None),
        (Some(100 * ms), Some(40 * ms)),
        (Some(40 * ms), Some(100 * ms)),
        (None, None),
        (Some(0), None),
    ];
    for (c, s) in pairs {
        let t = min2(c, s);
        for l in [Some(350 * ms), Some(250 * ms), Some(50 * ms), Some(100 * ms), Some(101 * ms), Some(99 * ms), Some(40 * ms), Some(0), None] {
            for b in busy_grid(t, l) {
                out.push(format!("runl {} {} {} {}", opt_tok(c), opt_tok(s), lat_tok(l), b));
            }
        }
    }
    // malformed / conformant raw header values in front of a late caller
    for v in [&b"+5S"[..], b"100m", b"00000100m", b"5X"] {
        for b in [0, 99 * ms, 100 * ms, 200 * ms, 300 * ms, 400 * ms] {
            out.push(format!("runl {} none {} {}", raw_tok(&[v]), 350 * ms, b));
            out.push(format!("runl {} {} {} {}", raw_tok(&[v]), 200 * ms, 350 * ms, b));
        }
    }
    // ---- clil / e2el: real stacks
    let cli_pairs: [(Option<u128>, Option<u128>); 4] =
        [(None, Some(100 * ms)), (Some(100 * ms), None), (Some(60 * ms), Some(100 * ms)), (None, None)];
    for (c, e) in cli_pairs {
        let t = min2(c, e);
        for l in [Some(350 * ms), Some(250 * ms), Some(50 * ms), None] {
            for b in busy_grid(t, l) {
                if racy(&[c, e], l, b) {
                    continue;
                }
                for peer in ["silent", "routes"] {
                    if thorough || rng.chance(1, 3) {
                        out.push(format!("clil {} {} {} {} {}", peer, opt_tok(c), opt_tok(e), lat_tok(l), b));
                    }
                }
            }
        }
    }
    let e2e_triples: [(Option<u128>, Option<u128>, Option<u128>); 6] = [
        (None, Some(100 * ms), None),
        (None, None, Some(100 * ms)),
        (Some(100 * ms), None, None),
        (None, Some(60 * ms), Some(100 * ms)),
        (None, Some(100 * ms), Some(60 * ms)),
        (None, None, None),
    ];
    for (c, s, e) in e2e_triples {
        let t = [c, s, e].into_iter().flatten().min();
        for l in [350 * ms, 250 * ms, 50 * ms] {
            for b in busy_grid(t, Some(l)) {
                if racy(&[c, s, e], Some(l), b) {
                    continue;
                }
                if thorough || rng.chance(1, 4) {
                    out.push(format!("e2el {} {} {} {} {}", opt_tok(c), opt_tok(s), opt_tok(e), l, b));
                }
            }
        }
    }
    // ---- random (whole ms): deadlines, latency and busy in every order
    let nrand = if thorough { 1500 } else { 120 };
    for _ in 0..nrand {
        let t = |rng: &mut Rng| -> Option<u128> {
            if rng.chance(1, 3) {
                None
            } else {
                Some(rng.range(1, 400) as u128 * ms)
            }
        };
        let a = t(rng);
        let b2 = t(rng);
        let l = if rng.chance(1, 6) { None } else { Some(rng.below(500) as u128 * ms) };
        let marks: Vec<u128> = [a, b2, l].into_iter().flatten().collect();
        let busy = match rng.below(5) {
            0 => 0,
            1 if !marks.is_empty() => {
                // one tick around a boundary
                let m = *rng.pick(&marks);
                (m + ms * rng.below(3) as u128).saturating_sub(ms)
            }
            _ => rng.below(600) as u128 * ms,
        };
        match rng.below(6) {
            0 | 1 | 2 => out.push(format!("runl {} {} {} {}", opt_tok(a), opt_tok(b2), lat_tok(l), busy)),
            3 | 4 => {
                if !racy(&[a, b2], l, busy) {
                    let peer = *rng.pick(&["silent", "routes"]);
                    out.push(format!("clil {} {} {} {} {}", peer, opt_tok(a), opt_tok(b2), lat_tok(l), busy));
                }
            }
            _ => {
                let third = t(rng);
                if let Some(l) = l {
                    if !racy(&[a, b2, third], Some(l), busy) {
                        out.push(format!("e2el {} {} {} {} {}", opt_tok(a), opt_tok(b2), opt_tok(third), l, busy));
                    }
                }
            }
        }
    }
    out
}

// ===== several calls through ONE middleware / ONE Channel / ONE server connection =====
//   mw <configured ns|none> (<caller> <latency ns|never>)+
//     ONE `GrpcTimeout` value (hook, under `RecoverError`) called once per pair, one call after the
//     other; the wrapped service answers call i after its latency (or never).
//   chan <silent|routes> <Endpoint::timeout ns|none> (<caller> <latency ns|never>)+
//     ONE real `Channel` (its client stack, incl. the one `GrpcTimeout`, lives in the Buffer worker) on
//     ONE connection to a peer that enforces nothing (as in `cli`); the calls are issued one after
//     the other, each when the previous one has completed (or was given up as `pending`).
//   chano <silent|routes> <Endpoint::timeout ns|none> <gap ns> (<caller> <latency ns|never>)+
//     the same from clones of the `Channel` in separate tasks, call i dispatched at `i * gap`
//     (gap 0: all at once), so that calls overlap.
//   conn <Server::timeout ns|none> (<grpc-timeout header> <handler latency ns|never>)+
//   conno <Server::timeout ns|none> <gap ns> (<grpc-timeout header> <handler latency ns|never>)+
//     ONE HTTP/2 connection of a bare h2 client (as in `srv`) to a real `transport::Server`, several
//     requests with their own grpc-timeout headers, one after the other / overlapping.
// The peer learns call i's latency from the request itself (header `verif-latency`), so nothing
// depends on the order in which it sees the requests.
// observed: one segment per call, in case order, joined by ` | `; a segment is as for `cli`:
// `inner <t>` | `timeout <code> <hex message> <t>` | `pending`, `t` = virtual ns between issuing THAT
// call and its completion.

const LAT_HDR: &str = "verif-latency";

fn hdr_latency(h: &HeaderMap) -> Option<u128> {
    h.get(LAT_HDR)?.to_str().ok()?.parse().ok()
}

fn parse_calls(toks: &[&str]) -> Option<Vec<(Caller, Option<u128>)>> {
    if toks.is_empty() || toks.len() % 2 != 0 {
        return None;
    }
    toks.chunks(2).map(|p| Some((caller(p[0])?, lat_ns(p[1])?))).collect()
}

fn plain_peer(x: &str) -> Option<Peer> {
    match x {
        "silent" => Some(Peer::Silent),
        "routes" => Some(Peer::Routes),
        _ => None,
    }
}

fn mw_case(s: Option<u128>, calls: Vec<(Caller, Option<u128>)>) -> String {
    let mut reqs = Vec::new();
    for (c, l) in &calls {
        let mut treq = tonic::Request::new(());
        if !c.apply(&mut treq) {
            return "not-a-header-value".into();
        }
        reqs.push((treq.metadata().clone().into_headers(), *l));
    }
    let rt = paused_rt();
    rt.block_on(async move {
        // the wrapped service: the request's body says when its answer is due
        let inner = tower::service_fn(|req: http::Request<Option<u128>>| {
            let due = req.body().map(|l| tokio::time::sleep(dur(l)));
            async move {
                match due {
                    Some(d) => d.await,
                    None => std::future::pending::<()>().await,
                }
                Ok::<_, tonic::Status>(http::Response::new(()))
            }
        });
        // ONE middleware value for the whole sequence
        let mut svc = tonic::service::RecoverError::new(GrpcTimeoutHook::new(inner, s.map(dur)));
        let mut out: Vec<String> = Vec::new();
        for (headers, l) in reqs {
            let mut req = http::Request::new(l);
            *req.headers_mut() = headers;
            let svc = svc.ready().await.unwrap();
            let start = tokio::time::Instant::now();
            let fut = svc.call(req);
            out.push(match tokio::time::timeout(HORIZON, fut).await {
                Err(_) => "pending".into(),
                Ok(Ok(resp)) => {
                    let t = start.elapsed().as_nanos();
                    match tonic::Status::from_header_map(resp.headers()) {
                        None => format!("inner {}", t),
                        Some(st) => format!("timeout {} {} {}", st.code() as i32, hex(st.message().as_bytes()), t),
                    }
                }
                Ok(Err(e)) => {
                    let st = tonic::Status::from_error(e);
                    format!("unrecovered {} {} {}", st.code() as i32, hex(st.message().as_bytes()), start.elapsed().as_nanos())
                }
            });
        }
        out.join(" | ")
    })
}

/// `bare_h2_peer` (whole response at once), the latency taken from each request.
async fn bare_h2_peer_hdr(io: tokio::io::DuplexStream) {
    let Ok(mut conn) = h2::server::handshake(io).await else { return };
    while let Some(next) = conn.accept().await {
        let Ok((req, mut respond)) = next else { return };
        tokio::spawn(async move {
            let latency = hdr_latency(req.headers());
            let _keep_request_open = req;
            let head = http::Response::builder()
                .status(200)
                .header("content-type", "application/grpc")
                .body(())
                .unwrap();
            wait(latency).await;
            let Ok(mut stream) = respond.send_response(head, false) else { return };
            let _ = stream.send_data(ok_message(), false);
            let _ = stream.send_trailers(ok_trailers());
        });
    }
}

/// `SleepSvc`, the latency taken from each request.
#[derive(Clone)]
struct HdrSleepSvc;
impl tonic::server::NamedService for HdrSleepSvc {
    const NAME: &'static str = "verif.Sleep";
}
impl tower::Service<http::Request<tonic::body::Body>> for HdrSleepSvc {
    type Response = http::Response<tonic::body::Body>;
    type Error = std::convert::Infallible;
    type Future = std::pin::Pin<Box<dyn std::future::Future<Output = Result<Self::Response, Self::Error>> + Send>>;
    fn poll_ready(&mut self, _cx: &mut std::task::Context<'_>) -> std::task::Poll<Result<(), Self::Error>> {
        std::task::Poll::Ready(Ok(()))
    }
    fn call(&mut self, req: http::Request<tonic::body::Body>) -> Self::Future {
        SleepSvc(hdr_latency(req.headers())).call(req)
    }
}

async fn routes_peer_hdr(io: tokio::io::DuplexStream) {
    let routes = tonic::service::Routes::new(HdrSleepSvc);
    let svc = hyper_util::service::TowerToHyperService::new(routes);
    let _ = hyper::server::conn::http2::Builder::new(hyper_util::rt::TokioExecutor::new())
        .timer(hyper_util::rt::TokioTimer::new())
        .serve_connection(hyper_util::rt::TokioIo::new(io), svc)
        .await;
}

/// One unary call on (a clone of) the channel, observed as in `cli`.
async fn one_channel_call(channel: tonic::transport::Channel, req: tonic::Request<Vec<u8>>) -> String {
    let mut grpc = tonic::client::Grpc::new(channel);
    let fut = async {
        if grpc.ready().await.is_err() {
            return "not-ready".to_string();
        }
        let start = tokio::time::Instant::now();
        let r = grpc.unary(req, "/verif.Sleep/Unary".parse().unwrap(), crate::c03::RawCodec).await;
        let t = start.elapsed().as_nanos();
        match r {
            Ok(_) => format!("inner {}", t),
            Err(st) => format!("timeout {} {} {}", st.code() as i32, hex(st.message().as_bytes()), t),
        }
    };
    match tokio::time::timeout(HORIZON, fut).await {
        Ok(o) => o,
        Err(_) => "pending".to_string(),
    }
}

fn chan_case(peer: Peer, e: Option<u128>, gap: Option<u128>, calls: Vec<(Caller, Option<u128>)>) -> String {
    let mut reqs = Vec::new();
    for (c, l) in &calls {
        let mut req = tonic::Request::new(vec![1u8]);
        if !c.apply(&mut req) {
            return "not-a-header-value".into();
        }
        req.metadata_mut().insert(LAT_HDR, lat_tok(*l).parse().unwrap());
        reqs.push(req);
    }
    let rt = paused_rt();
    rt.block_on(async move {
        let (cli, srv) = tokio::io::duplex(64 * 1024);
        match peer {
            Peer::Routes => drop(tokio::spawn(routes_peer_hdr(srv))),
            _ => drop(tokio::spawn(bare_h2_peer_hdr(srv))),
        }
        let mut ep = tonic::transport::Endpoint::from_static("http://[::]:50051");
        if let Some(e) = e {
            ep = ep.timeout(dur(e));
        }
        let mut cli = Some(cli);
        // ONE channel, ONE connection (the connector hands out the duplex once)
        let channel = match ep
            .connect_with_connector(tower::service_fn(move |_: http::Uri| {
                let c = cli.take();
                async move { c.map(hyper_util::rt::TokioIo::new).ok_or_else(|| std::io::Error::other("used")) }
            }))
            .await
        {
            Ok(ch) => ch,
            Err(_) => return "connect-failed".to_string(),
        };
        let mut out: Vec<String> = Vec::new();
        match gap {
            None => {
                for req in reqs {
                    out.push(one_channel_call(channel.clone(), req).await);
                }
            }
            Some(g) => {
                let mut tasks = Vec::new();
                for (i, req) in reqs.into_iter().enumerate() {
                    let ch = channel.clone();
                    tasks.push(tokio::spawn(async move {
                        if g > 0 && i > 0 {
                            tokio::time::sleep(dur(g * i as u128)).await;
                        }
                        one_channel_call(ch, req).await
                    }));
                }
                for t in tasks {
                    out.push(t.await.unwrap_or_else(|_| "panic".to_string()));
                }
            }
        }
        out.join(" | ")
    })
}

/// One request of the bare h2 client (as in `srv`): sends the header values as they are, enforces
/// nothing, reads the reply to its end.
async fn one_h2_request(h2c: h2::client::SendRequest<bytes::Bytes>, hv: Vec<HeaderValue>, latency: Option<u128>) -> String {
    let fut = async {
        let Ok(mut h2c) = h2c.ready().await else { return "not-ready".to_string() };
        let mut b = http::Request::builder()
            .method("POST")
            .uri("http://localhost/verif.Sleep/Unary")
            .header("content-type", "application/grpc")
            .header("te", "trailers")
            .header(LAT_HDR, lat_tok(latency));
        for v in &hv {
            b = b.header("grpc-timeout", v.clone());
        }
        let start = tokio::time::Instant::now();
        let Ok((resp, mut send)) = h2c.send_request(b.body(()).unwrap(), false) else { return "send-failed".to_string() };
        if send.send_data(bytes::Bytes::from_static(&[0, 0, 0, 0, 1, 1]), true).is_err() {
            return "send-failed".to_string();
        }
        let resp = match resp.await {
            Ok(r) => r,
            Err(_) => return format!("reset {}", start.elapsed().as_nanos()),
        };
        let (parts, mut body) = resp.into_parts();
        let mut status = tonic::Status::from_header_map(&parts.headers);
        if status.is_none() {
            while let Some(chunk) = body.data().await {
                match chunk {
                    Ok(c) => {
                        let _ = body.flow_control().release_capacity(c.len());
                    }
                    Err(_) => return format!("reset {}", start.elapsed().as_nanos()),
                }
            }
            match body.trailers().await {
                Ok(Some(t)) => status = tonic::Status::from_header_map(&t),
                Ok(None) => return format!("no-trailers {}", start.elapsed().as_nanos()),
                Err(_) => return format!("reset {}", start.elapsed().as_nanos()),
            }
        }
        let t = start.elapsed().as_nanos();
        match status {
            Some(st) if st.code() == tonic::Code::Ok => format!("inner {}", t),
            Some(st) => format!("timeout {} {} {}", st.code() as i32, hex(st.message().as_bytes()), t),
            None => format!("no-status {}", t),
        }
    };
    match tokio::time::timeout(HORIZON, fut).await {
        Ok(o) => o,
        Err(_) => "pending".to_string(),
    }
}

fn conn_case(s: Option<u128>, gap: Option<u128>, calls: Vec<(Caller, Option<u128>)>) -> String {
    let mut reqs = Vec::new();
    for (h, l) in &calls {
        let Some(hv) = h.by_hand() else { return "not-a-header-value".into() };
        reqs.push((hv, *l));
    }
    let rt = paused_rt();
    rt.block_on(async move {
        let (cli, srv) = tokio::io::duplex(64 * 1024);
        let mut builder = tonic::transport::Server::builder();
        if let Some(s) = s {
            builder = builder.timeout(dur(s));
        }
        let router = builder.add_service(HdrSleepSvc);
        let incoming = {
            use tokio_stream::StreamExt;
            tokio_stream::iter(vec![Ok::<_, std::io::Error>(DuplexConn(srv))]).chain(tokio_stream::pending())
        };
        tokio::spawn(async move {
            let _ = router.serve_with_incoming(incoming).await;
        });
        // ONE connection for all requests
        let Ok((h2c, conn)) = h2::client::handshake(cli).await else { return "connect-failed".to_string() };
        tokio::spawn(async move {
            let _ = conn.await;
        });
        let mut out: Vec<String> = Vec::new();
        match gap {
            None => {
                for (hv, l) in reqs {
                    out.push(one_h2_request(h2c.clone(), hv, l).await);
                }
            }
            Some(g) => {
                let mut tasks = Vec::new();
                for (i, (hv, l)) in reqs.into_iter().enumerate() {
                    let c = h2c.clone();
                    tasks.push(tokio::spawn(async move {
                        if g > 0 && i > 0 {
                            tokio::time::sleep(dur(g * i as u128)).await;
                        }
                        one_h2_request(c, hv, l).await
                    }));
                }
                for t in tasks {
                    out.push(t.await.unwrap_or_else(|_| "panic".to_string()));
                }
            }
        }
        out.join(" | ")
    })
}

pub fn gen_multi(tier: &str, rng: &mut Rng) -> Vec<String> {
    let thorough = tier == "thorough";
    let mut out = Vec::new();
    let ms = 1_000_000u128;
    let body = |calls: &[(String, Option<u128>)]| -> String {
        calls.iter().map(|(c, l)| format!("{} {}", c, lat_tok(*l))).collect::<Vec<_>>().join(" ")
    };
    // every kind for one call sequence (`sample`: 1 in how many for the real-stack kinds)
    let all_kinds = |out: &mut Vec<String>, rng: &mut Rng, conf: Option<u128>, calls: &[(String, Option<u128>)], gaps: &[u128], sample: u64| {
        let b = body(calls);
        out.push(format!("mw {} {}", opt_tok(conf), b));
        for peer in ["silent", "routes"] {
            if rng.chance(1, sample) {
                out.push(format!("chan {} {} {}", peer, opt_tok(conf), b));
            }
            for g in gaps {
                if rng.chance(1, sample) {
                    out.push(format!("chano {} {} {} {}", peer, opt_tok(conf), g, b));
                }
            }
        }
        if rng.chance(1, sample) {
            out.push(format!("conn {} {}", opt_tok(conf), b));
        }
        for g in gaps {
            if rng.chance(1, sample) {
                out.push(format!("conno {} {} {}", opt_tok(conf), g, b));
            }
        }
    };
    let d = |x: u128| (x * ms).to_string();
    // corpus: the witness of seed C09e (= the Lean witness of C09_sticky_first_header_fails, in ms):
    // nothing configured, a first call with a 100 ms deadline answered after 50 ms, then a call
    // with no deadline / a longer one / behind a malformed one, answered after 350 ms or never
    let first = (d(100), Some(50 * ms));
    for second in [
        ("none".to_string(), Some(350 * ms)),
        (d(1000), Some(350 * ms)),
        ("none".to_string(), None),
        (raw_tok(&[b"+5S"]), Some(350 * ms)),
    ] {
        all_kinds(&mut out, rng, None, &[first.clone(), second.clone()], &[0, 10 * ms], 1);
        // the first call still running (and cut at its own deadline) when the second is issued
        all_kinds(&mut out, rng, None, &[(d(100), None), second.clone()], &[0, 10 * ms], 1);
        // the deadline arrives as a raw header value
        all_kinds(&mut out, rng, None, &[(raw_tok(&[b"100m"]), Some(50 * ms)), second], &[10 * ms], 1);
    }
    // three calls: the second one's longer deadline must not be replaced by the first one's either
    all_kinds(&mut out, rng, None, &[(d(100), Some(50 * ms)), (d(300), Some(200 * ms)), ("none".to_string(), Some(350 * ms))], &[10 * ms], 1);
    // ---- grid: two calls, (configured, caller 1, caller 2) × latencies around every deadline in sight
    let grid: [Option<u128>; 4] = [None, Some(20 * ms), Some(100 * ms), Some(1000 * ms)];
    for conf in [None, Some(50 * ms), Some(200 * ms)] {
        for c1 in grid {
            for c2 in grid {
                let marks: Vec<u128> = [conf, c1, c2].into_iter().flatten().collect();
                let mut l2s: Vec<u128> = vec![5 * ms, 5_000 * ms];
                for m in &marks {
                    l2s.push(m - ms);
                    l2s.push(m + ms);
                }
                l2s.sort();
                l2s.dedup();
                let mut l2s: Vec<Option<u128>> = l2s.into_iter().filter(|l| !marks.contains(l)).map(Some).collect();
                l2s.push(None);
                for l1 in [Some(5 * ms), None] {
                    for l2 in &l2s {
                        let calls = [(opt_tok(c1), l1), (opt_tok(c2), *l2)];
                        all_kinds(&mut out, rng, conf, &calls, &[7 * ms], if thorough { 1 } else { 8 });
                    }
                }
            }
        }
    }
    // ---- random sequences of 2..=5 calls (whole ms; no latency on any deadline of the sequence)
    let nrand = if thorough { 700 } else { 60 };
    for _ in 0..nrand {
        let n = rng.range(2, 5) as usize;
        let conf = if rng.chance(1, 2) { None } else { Some(rng.range(1, 400) as u128 * ms) };
        let callers: Vec<Option<u128>> = (0..n).map(|_| if rng.chance(1, 3) { None } else { Some(rng.range(1, 400) as u128 * ms) }).collect();
        let marks: Vec<u128> = callers.iter().copied().chain([conf]).flatten().collect();
        let calls: Vec<(String, Option<u128>)> = callers
            .iter()
            .map(|c| {
                let l = match rng.below(5) {
                    0 => None,
                    1 => Some(rng.below(500) as u128 * ms),
                    _ if !marks.is_empty() => {
                        let m = *rng.pick(&marks);
                        let k = rng.range(1, 3) as u128 * ms;
                        Some(if rng.chance(1, 2) { m + k } else { m.saturating_sub(k) })
                    }
                    _ => Some(rng.below(500) as u128 * ms),
                };
                let l = l.map(|mut l| {
                    while marks.contains(&l) {
                        l += ms;
                    }
                    l
                });
                (opt_tok(*c), l)
            })
            .collect();
        let gap = *rng.pick(&[0, ms, 10 * ms, 30 * ms, 150 * ms]);
        all_kinds(&mut out, rng, conf, &calls, &[gap], if thorough { 1 } else { 3 });
    }
    // distinct case lines, first occurrence kept
    let mut seen = std::collections::HashSet::new();
    out.retain(|c| seen.insert(c.clone()));
    out
}
