//! C09 — grpc-timeout encoding/parsing and shortest-deadline enforcement.
use crate::common::*;
use http::{HeaderMap, HeaderValue};
use std::time::Duration;
use tonic::transport::verif_hooks::{parse_grpc_timeout, GrpcTimeoutHook};
use tower::{Service, ServiceExt};

const NS: u128 = 1;
const UNITS: [(u8, u128); 6] = [
    (b'n', NS),
    (b'u', 1_000),
    (b'm', 1_000_000),
    (b'S', 1_000_000_000),
    (b'M', 60_000_000_000),
    (b'H', 3_600_000_000_000),
];

pub fn generate(tier: &str, rng: &mut Rng) -> Vec<String> {
    let thorough = tier == "thorough";
    let mut out = Vec::new();
    // corpus: witnesses of earlier findings
    for v in ["+5S", "+0n", "+99999999H", "-1S", "5", "S", "", "123456789S", "5s", "5 S", " 5S", "0H"] {
        out.push(format!("parse {}", hex(v.as_bytes())));
    }
    // enc: every unit boundary ±1 ns and around, plus random
    let max = 99_999_999u128;
    let mut ds: Vec<u128> = vec![0, 1, 999, 1000, 1001];
    for (_, k) in UNITS {
        for v in [1u128, 2, 59, 60, 61, 999, 1000, 1001, max - 1, max, max + 1] {
            for delta in [-1i128, 0, 1] {
                let d = (v * k) as i128 + delta;
                if d >= 0 {
                    ds.push(d as u128);
                }
            }
        }
    }
    ds.push(100_000_000u128 * 3_600_000_000_000 - 1); // largest representable
    let nrand = if thorough { 20000 } else { 1500 };
    for _ in 0..nrand {
        let (_, k) = *rng.pick(&UNITS);
        let v = match rng.below(4) {
            0 => rng.below(100),
            1 => rng.below(100_000_000),
            2 => 99_999_000 + rng.below(2000),
            _ => rng.below(10_000),
        } as u128;
        let off = rng.below(k as u64 + 1) as u128;
        ds.push((v * k + off).min(100_000_000u128 * 3_600_000_000_000 - 1));
    }
    for d in ds {
        out.push(format!("enc {}", d));
    }
    // parse: structured (every unit × 1..=9 digits × boundary digit strings, leading + / space),
    // all 256 unit bytes that a HeaderValue can carry, malformed
    for (u, _) in UNITS {
        for nd in 0..=9usize {
            for pat in 0..4 {
                let digits: String = match pat {
                    0 => "9".repeat(nd),
                    1 => "0".repeat(nd),
                    2 => (0..nd).map(|i| char::from(b'1' + (i % 9) as u8)).collect(),
                    _ => (0..nd).map(|_| char::from(b'0' + rng.below(10) as u8)).collect(),
                };
                let mut v = digits.into_bytes();
                v.push(u);
                out.push(format!("parse {}", hex(&v)));
                let mut w = vec![b'+'];
                w.extend_from_slice(&v);
                out.push(format!("parse {}", hex(&w)));
            }
        }
    }
    for b in 0u16..=255 {
        let b = b as u8;
        if (b >= 32 && b != 127) || b == 9 {
            out.push(format!("parse {}", hex(&[b'7', b])));
            out.push(format!("parse {}", hex(&[b, b'S'])));
            out.push(format!("parse {}", hex(&[b'1', b, b'2', b'm'])));
        }
    }
    let nrand = if thorough { 20000 } else { 1500 };
    let alphabet: Vec<u8> = b"0123456789+- nHMSmuXx\t.e\xc3\xa9".to_vec();
    for _ in 0..nrand {
        let n = rng.below(12) as usize;
        let v: Vec<u8> = (0..n)
            .map(|_| {
                if rng.chance(9, 10) {
                    *rng.pick(&alphabet)
                } else {
                    let b = rng.next() as u8;
                    if (b >= 32 && b != 127) || b == 9 {
                        b
                    } else {
                        b'1'
                    }
                }
            })
            .collect();
        out.push(format!("parse {}", hex(&v)));
    }
    // run: (caller, configured, latency) grid around boundaries, in ns
    let grid: Vec<Option<u128>> = vec![None, Some(0), Some(1_000_000), Some(2_000_000), Some(1_000_000_000)];
    for c in &grid {
        for s in &grid {
            let mut lats: Vec<u128> = vec![0, 1_000_000, 5_000_000_000];
            for t in [c, s].into_iter().flatten() {
                for delta in [-1_000_000i128, 0, 1_000_000] {
                    let l = *t as i128 + delta;
                    if l >= 0 {
                        lats.push(l as u128);
                    }
                }
            }
            lats.sort();
            lats.dedup();
            for l in lats {
                out.push(format!("run {} {} {}", opt_tok(*c), opt_tok(*s), l));
            }
        }
    }
    let nrand = if thorough { 3000 } else { 300 };
    for _ in 0..nrand {
        let mut t = |rng: &mut Rng| -> Option<u128> {
            if rng.chance(1, 4) {
                None
            } else {
                Some(rng.below(50) as u128 * 1_000_000)
            }
        };
        let c = t(rng);
        let s = t(rng);
        let l = rng.below(50) as u128 * 1_000_000;
        out.push(format!("run {} {} {}", opt_tok(c), opt_tok(s), l));
    }
    out.extend(gen_e2e(tier, rng));
    out
}

fn dur(ns: u128) -> Duration {
    Duration::new((ns / 1_000_000_000) as u64, (ns % 1_000_000_000) as u32)
}

pub fn execute(case: &str) -> String {
    let t: Vec<&str> = case.split(' ').collect();
    match t.as_slice() {
        ["enc", d] => {
            let d: u128 = d.parse().unwrap();
            let mut req = tonic::Request::new(());
            req.set_timeout(dur(d));
            match req.metadata().get("grpc-timeout") {
                Some(v) => hex(v.as_encoded_bytes()),
                None => "absent".into(),
            }
        }
        ["parse", v] => {
            let v = unhex(v).unwrap();
            let mut h = HeaderMap::new();
            match HeaderValue::from_bytes(&v) {
                Ok(hv) => {
                    h.insert("grpc-timeout", hv);
                }
                Err(_) => return "not-a-header-value".into(),
            }
            match parse_grpc_timeout(&h) {
                Ok(Some(d)) => format!("some {}", d.as_nanos()),
                Ok(None) => "absent".into(),
                Err(()) => "ignored".into(),
            }
        }
        ["e2e", c, s, e, l] => {
            let p = |x: &str| -> Option<u128> { if x == "none" { None } else { Some(x.parse().unwrap()) } };
            e2e_case(p(c), p(s), p(e), l.parse().unwrap())
        }
        ["run", c, s, l] => {
            let c: Option<u128> = if *c == "none" { None } else { Some(c.parse().unwrap()) };
            let s: Option<u128> = if *s == "none" { None } else { Some(s.parse().unwrap()) };
            let l: u128 = l.parse().unwrap();
            run_case(c, s, l)
        }
        _ => "bad-case".into(),
    }
}

/// Drive the real `GrpcTimeout` middleware in virtual time: the caller's timeout travels as a
/// `grpc-timeout` header written by `Request::set_timeout`; the inner service answers after
/// `latency`.
fn run_case(c: Option<u128>, s: Option<u128>, latency: u128) -> String {
    let rt = paused_rt();
    rt.block_on(async move {
        let inner = tower::service_fn(move |_req: http::Request<()>| async move {
            tokio::time::sleep(dur(latency)).await;
            Ok::<_, tonic::Status>(http::Response::new(()))
        });
        // as in transport::Server: RecoverError (error → trailers-only response) around GrpcTimeout
        let mut svc = tonic::service::RecoverError::new(GrpcTimeoutHook::new(inner, s.map(dur)));
        let mut treq = tonic::Request::new(());
        if let Some(c) = c {
            treq.set_timeout(dur(c));
        }
        let mut req = http::Request::new(());
        *req.headers_mut() = treq.metadata().clone().into_headers();
        // outer watchdog far beyond every deadline: a stuck future is the observable `hang`
        let fut = svc.ready().await.unwrap().call(req);
        match tokio::time::timeout(Duration::from_secs(1_000_000), fut).await {
            Err(_) => "hang".into(),
            Ok(Ok(resp)) => match tonic::Status::from_header_map(resp.headers()) {
                None => "inner".into(),
                Some(st) => format!("timeout {} {}", st.code() as i32, hex(st.message().as_bytes())),
            },
            Ok(Err(e)) => {
                let st = tonic::Status::from_error(e);
                format!("unrecovered {} {}", st.code() as i32, hex(st.message().as_bytes()))
            }
        }
    })
}

// ===== end to end: the real transport stack on both sides =====
//   e2e <caller ns|none> <Server::timeout ns|none> <Endpoint::timeout ns|none> <handler latency ns>
// A real `transport::Server` (with `.timeout`) and a real `Channel` (with `Endpoint::timeout`) over an
// in-memory duplex, virtual time; the caller's deadline travels as grpc-timeout.

#[derive(Clone)]
struct SleepSvc(u128);

impl tonic::server::NamedService for SleepSvc {
    const NAME: &'static str = "verif.Sleep";
}

struct SleepUnary(u128);
impl tonic::server::UnaryService<Vec<u8>> for SleepUnary {
    type Response = Vec<u8>;
    type Future = std::pin::Pin<Box<dyn std::future::Future<Output = Result<tonic::Response<Vec<u8>>, tonic::Status>> + Send>>;
    fn call(&mut self, _r: tonic::Request<Vec<u8>>) -> Self::Future {
        let l = self.0;
        Box::pin(async move {
            tokio::time::sleep(dur(l)).await;
            Ok(tonic::Response::new(vec![7]))
        })
    }
}

impl tower::Service<http::Request<tonic::body::Body>> for SleepSvc {
    type Response = http::Response<tonic::body::Body>;
    type Error = std::convert::Infallible;
    type Future = std::pin::Pin<Box<dyn std::future::Future<Output = Result<Self::Response, Self::Error>> + Send>>;
    fn poll_ready(&mut self, _cx: &mut std::task::Context<'_>) -> std::task::Poll<Result<(), Self::Error>> {
        std::task::Poll::Ready(Ok(()))
    }
    fn call(&mut self, req: http::Request<tonic::body::Body>) -> Self::Future {
        let l = self.0;
        Box::pin(async move {
            let mut grpc = tonic::server::Grpc::new(crate::c03::RawCodec);
            Ok(grpc.unary(SleepUnary(l), req).await)
        })
    }
}

struct DuplexConn(tokio::io::DuplexStream);
impl tonic::transport::server::Connected for DuplexConn {
    type ConnectInfo = ();
    fn connect_info(&self) {}
}
impl tokio::io::AsyncRead for DuplexConn {
    fn poll_read(mut self: std::pin::Pin<&mut Self>, cx: &mut std::task::Context<'_>, buf: &mut tokio::io::ReadBuf<'_>) -> std::task::Poll<std::io::Result<()>> {
        std::pin::Pin::new(&mut self.0).poll_read(cx, buf)
    }
}
impl tokio::io::AsyncWrite for DuplexConn {
    fn poll_write(mut self: std::pin::Pin<&mut Self>, cx: &mut std::task::Context<'_>, buf: &[u8]) -> std::task::Poll<std::io::Result<usize>> {
        std::pin::Pin::new(&mut self.0).poll_write(cx, buf)
    }
    fn poll_flush(mut self: std::pin::Pin<&mut Self>, cx: &mut std::task::Context<'_>) -> std::task::Poll<std::io::Result<()>> {
        std::pin::Pin::new(&mut self.0).poll_flush(cx)
    }
    fn poll_shutdown(mut self: std::pin::Pin<&mut Self>, cx: &mut std::task::Context<'_>) -> std::task::Poll<std::io::Result<()>> {
        std::pin::Pin::new(&mut self.0).poll_shutdown(cx)
    }
}

fn e2e_case(c: Option<u128>, s: Option<u128>, e: Option<u128>, latency: u128) -> String {
    let rt = paused_rt();
    rt.block_on(async move {
        let (cli, srv) = tokio::io::duplex(64 * 1024);
        let mut builder = tonic::transport::Server::builder();
        if let Some(s) = s {
            builder = builder.timeout(dur(s));
        }
        let router = builder.add_service(SleepSvc(latency));
        // one connection, then the listener stays open (an ended `incoming` starts a shutdown)
        let incoming = {
            use tokio_stream::StreamExt;
            tokio_stream::iter(vec![Ok::<_, std::io::Error>(DuplexConn(srv))]).chain(tokio_stream::pending())
        };
        let (stop_tx, stop_rx) = tokio::sync::oneshot::channel::<()>();
        let server = tokio::spawn(async move {
            let _ = router
                .serve_with_incoming_shutdown(incoming, async move {
                    let _ = stop_rx.await;
                })
                .await;
        });
        let mut ep = tonic::transport::Endpoint::from_static("http://[::]:50051");
        if let Some(e) = e {
            ep = ep.timeout(dur(e));
        }
        let mut cli = Some(cli);
        let channel = match ep
            .connect_with_connector(tower::service_fn(move |_: http::Uri| {
                let c = cli.take();
                async move { c.map(hyper_util::rt::TokioIo::new).ok_or_else(|| std::io::Error::other("used")) }
            }))
            .await
        {
            Ok(ch) => ch,
            Err(_) => return "connect-failed".to_string(),
        };
        let mut grpc = tonic::client::Grpc::new(channel);
        let mut req = tonic::Request::new(vec![1u8]);
        if let Some(c) = c {
            req.set_timeout(dur(c));
        }
        let fut = async {
            if grpc.ready().await.is_err() {
                return "not-ready".to_string();
            }
            match grpc.unary(req, "/verif.Sleep/Unary".parse().unwrap(), crate::c03::RawCodec).await {
                Ok(_) => "inner".to_string(),
                Err(st) => format!("timeout {} {}", st.code() as i32, hex(st.message().as_bytes())),
            }
        };
        let out = match tokio::time::timeout(Duration::from_secs(1_000_000), fut).await {
            Ok(o) => o,
            Err(_) => "hang".to_string(),
        };
        let _ = stop_tx.send(());
        drop(grpc);
        let _ = tokio::time::timeout(Duration::from_secs(10), server).await;
        out
    })
}

pub fn gen_e2e(tier: &str, rng: &mut Rng) -> Vec<String> {
    let mut out = Vec::new();
    let ms = 1_000_000u128;
    let grid: Vec<Option<u128>> = vec![None, Some(20 * ms), Some(50 * ms), Some(1000 * ms)];
    for c in &grid {
        for s in &grid {
            for e in &grid {
                let mut lats: Vec<u128> = vec![0, 5 * ms, 5_000 * ms];
                for t in [c, s, e].into_iter().flatten() {
                    // strictly inside / outside each deadline (the instant itself is a scheduling race)
                    lats.push(*t - 3 * ms);
                    lats.push(*t + 3 * ms);
                }
                lats.sort();
                lats.dedup();
                for l in lats {
                    // skip latencies within 2 ms of any present deadline
                    if [c, s, e].into_iter().flatten().any(|t| (*t as i128 - l as i128).abs() < 2 * ms as i128) {
                        continue;
                    }
                    if tier == "thorough" || rng.chance(1, 2) {
                        out.push(format!("e2e {} {} {} {}", opt_tok(*c), opt_tok(*s), opt_tok(*e), l));
                    }
                }
            }
        }
    }
    out
}
