//! C16 — dimension audit (aC16): what the `resp` / `req` / `call` kinds of `c16.rs` do not drive.
//!
//! Case kinds (events, header tokens as in `c16.rs`):
//!   hresp <hints> <accept|none> <ev>*      `resp`, and the HINTS (`is_end_stream`, `size_hint`) of the body the layer
//!                                           returns are read before every frame is asked for; <hints> = the hints the
//!                                           inner response body gives (bit 0 exact size, bit 1 end-of-stream)
//!   hreq <hints> <content-type> <ev>*      `req`, with the hints of the body the INNER SERVICE is handed
//!   rhead <accept|none> <status> <ver> <ext 0|1> <n> (<name> <value>){n} <ev>*
//!                                           the inner service's response HEAD is a dimension: status, version, an
//!                                           extension, any header map (grpc-status in the headers, several
//!                                           content-types, ...)
//!   seq <mode> ( ;; <call case> )+         a HISTORY on one configured value: s = one `GrpcWebService` value serves the
//!                                           calls one after the other, c = every call goes through a fresh clone of it,
//!                                           r = all calls are started in order and answered in REVERSE order (several
//!                                           calls in flight), l = one `GrpcWebLayer` value (and clones of it) builds a
//!                                           service per call.  The inner service insists on `poll_ready` before `call`
//!                                           and is not ready at once.
//!   wresp <stack> <h1|h2> <hints> <accept|none> <ev>*
//!                                           `resp` through the REAL `transport::Server` (accept_http1, hyper, Routes /
//!                                           axum) read by a raw hyper client; stack = layer (Server::layer(GrpcWebLayer))
//!                                           | svc (add_service(GrpcWebLayer::new().layer(svc)), found by its
//!                                           NamedService name)
//! observed:
//!   hresp: as `resp`, then `E <bits> H (<lower>:<upper|->)*` — one entry per frame asked for (terminal included)
//!   hreq:  as `req`,  then the same for the inner service's request body
//!   rhead: `<status> <ver> <ext> h <headers> <frames>`
//!   seq:   the `call` observations joined by `;;`
//!   wresp: as `resp` (of the headers only content-type and x-inner: hyper adds its own)
use super::*;

// ---------------------------------------------------------------------------------------------
// draining a body while reading its hints

pub struct Hinted {
    pub frames: Vec<String>,
    pub flags: String,
    pub hints: Vec<String>,
}

impl Hinted {
    fn tokens(&self) -> String {
        format!("E {} H {}", if self.flags.is_empty() { "-" } else { &self.flags }, self.hints.join(" "))
    }
}

pub async fn drain_h<B>(body: B) -> Hinted
where
    B: Body<Data = Bytes>,
{
    let mut body = Box::pin(body);
    let mut out = Vec::new();
    let mut flags = String::new();
    let mut hints = Vec::new();
    loop {
        flags.push(if body.is_end_stream() { '1' } else { '0' });
        let h = body.size_hint();
        hints.push(format!("{}:{}", h.lower(), h.upper().map(|u| u.to_string()).unwrap_or_else(|| "-".into())));
        let fr = std::future::poll_fn(|cx| body.as_mut().poll_frame(cx)).await;
        match fr {
            None => {
                out.push("eos".to_string());
                break;
            }
            Some(Err(_)) => {
                out.push("err".to_string());
                break;
            }
            Some(Ok(frame)) => match frame.into_data() {
                Ok(d) => {
                    out.push("d".into());
                    out.push(hex(&d));
                }
                Err(frame) => match frame.into_trailers() {
                    Ok(t) => render_trailers(&t, &mut out),
                    Err(_) => out.push("other".into()),
                },
            },
        }
        if out.len() > 200_000 {
            out.push("runaway".into());
            break;
        }
    }
    Hinted { frames: out, flags, hints }
}

// ---------------------------------------------------------------------------------------------
// the scripted inner service of the new kinds

#[derive(Clone)]
struct RespScript {
    status: u16,
    version: Version,
    ext: bool,
    headers: Vec<(Vec<u8>, Vec<u8>)>,
    evs: Vec<Ev>,
    hints: u8,
}

impl RespScript {
    fn plain(evs: Vec<Ev>, hints: u8) -> Self {
        RespScript {
            status: 200,
            version: Version::HTTP_11,
            ext: false,
            headers: INNER_RESP_HEADERS.iter().map(|(k, v)| (k.as_bytes().to_vec(), v.as_bytes().to_vec())).collect(),
            evs,
            hints,
        }
    }
}

/// the position of a call in its history, carried in the request's extensions
#[derive(Clone, Copy, PartialEq, Debug)]
struct Idx(usize);

#[derive(Clone, Default)]
struct SeenX {
    idx: Option<usize>,
    seen: Seen,
    flags: String,
    hints: Vec<String>,
}

struct XState {
    /// one slot per call, in the order of the `call`s
    seen: Vec<Option<SeenX>>,
    /// `poll_ready` said Ready and no `call` has used that up yet
    ready: bool,
    /// `poll_ready` answers Pending (after waking the task) this many times before every Ready
    not_ready: u32,
    pend_left: u32,
    ready_polls: u32,
    resp: RespScript,
}

#[derive(Clone)]
struct InnerX {
    st: Arc<Mutex<XState>>,
}

impl InnerX {
    fn new(resp: RespScript, not_ready: u32) -> Self {
        InnerX { st: Arc::new(Mutex::new(XState { seen: Vec::new(), ready: false, not_ready, pend_left: not_ready, ready_polls: 0, resp })) }
    }
}

impl Service<Request<tonic::body::Body>> for InnerX {
    type Response = Response<ScriptBody>;
    type Error = std::convert::Infallible;
    type Future = Pin<Box<dyn Future<Output = Result<Self::Response, Self::Error>> + Send>>;
    fn poll_ready(&mut self, cx: &mut Context<'_>) -> Poll<Result<(), Self::Error>> {
        let mut s = self.st.lock().unwrap();
        s.ready_polls += 1;
        if s.pend_left > 0 {
            s.pend_left -= 1;
            cx.waker().wake_by_ref();
            return Poll::Pending;
        }
        s.ready = true;
        Poll::Ready(Ok(()))
    }
    fn call(&mut self, req: Request<tonic::body::Body>) -> Self::Future {
        let (idx, resp) = {
            let mut s = self.st.lock().unwrap();
            if !s.ready {
                // tower's contract; a layer that does not hand `poll_ready` down ends up here
                panic!("call-before-ready");
            }
            s.ready = false;
            s.pend_left = s.not_ready;
            s.seen.push(None);
            (s.seen.len() - 1, s.resp.clone())
        };
        let st = self.st.clone();
        Box::pin(async move {
            let (parts, body) = req.into_parts();
            let h = drain_h(body).await;
            {
                let mut s = st.lock().unwrap();
                s.seen[idx] = Some(SeenX {
                    idx: parts.extensions.get::<Idx>().map(|i| i.0),
                    seen: Seen {
                        called: true,
                        ext: parts.extensions.get::<Marker>() == Some(&Marker(7)),
                        headers: Some(parts.headers),
                        version: Some(parts.version),
                        method: Some(parts.method),
                        uri: Some(parts.uri),
                        frames: h.frames,
                    },
                    flags: h.flags,
                    hints: h.hints,
                });
            }
            let mut b = ScriptBody::new(resp.evs);
            b.hints = resp.hints;
            let mut res = Response::new(b);
            *res.status_mut() = http::StatusCode::from_u16(resp.status).unwrap();
            *res.version_mut() = resp.version;
            if resp.ext {
                res.extensions_mut().insert(Marker(9));
            }
            *res.headers_mut() = header_map(&resp.headers).expect("valid response headers");
            Ok(res)
        })
    }
}

fn build_request(c: &CallIn, hints: u8, idx: usize) -> Option<Request<ScriptBody>> {
    let mut b = ScriptBody::new(c.req_evs.clone());
    b.hints = hints;
    let mut req = Request::new(b);
    *req.method_mut() = c.method.clone();
    *req.version_mut() = c.version;
    *req.uri_mut() = c.uri.clone();
    if c.ext {
        req.extensions_mut().insert(Marker(7));
    }
    req.extensions_mut().insert(Idx(idx));
    *req.headers_mut() = header_map(&c.headers)?;
    Some(req)
}

/// `poll_ready` until Ready, the way `tower::ServiceExt::ready` does
fn make_ready<S>(svc: &mut S) -> Option<()>
where
    S: Service<Request<ScriptBody>>,
{
    block_on(std::future::poll_fn(|cx| svc.poll_ready(cx))).map(|_| ())
}

struct XOut {
    status: u16,
    version: Version,
    ext: bool,
    headers: HeaderMap,
    body: Hinted,
    seen: Option<SeenX>,
}

type Svc = tonic_web::GrpcWebService<InnerX>;

fn finish(res: Response<tonic::body::Body>) -> Option<(u16, Version, bool, HeaderMap, Hinted)> {
    let (parts, body) = res.into_parts();
    let h = block_on(drain_h(body))?;
    Some((parts.status.as_u16(), parts.version, parts.extensions.get::<Marker>() == Some(&Marker(9)), parts.headers, h))
}

/// one call on a fresh service
fn run_x(c: &CallIn, req_hints: u8, resp: RespScript) -> Option<XOut> {
    let inner = InnerX::new(resp, 1);
    let mut svc: Svc = tonic_web::GrpcWebLayer::new().layer(inner.clone());
    let req = build_request(c, req_hints, 0)?;
    make_ready(&mut svc)?;
    let res = block_on(svc.call(req))?.unwrap();
    let (status, version, ext, headers, body) = finish(res)?;
    let seen = inner.st.lock().unwrap().seen.first().cloned().flatten();
    Some(XOut { status, version, ext, headers, body, seen })
}

fn post_web(headers: Vec<(Vec<u8>, Vec<u8>)>, req_evs: Vec<Ev>) -> CallIn {
    CallIn { method: Method::POST, version: Version::HTTP_11, uri: http::Uri::from_static("/"), ext: false, headers, req_evs, resp_evs: vec![] }
}

fn resp_request_headers(acc: &Option<HeaderValue>) -> Vec<(Vec<u8>, Vec<u8>)> {
    let mut headers = vec![(b"content-type".to_vec(), b"application/grpc-web".to_vec())];
    if let Some(a) = acc {
        headers.push((b"accept".to_vec(), a.as_bytes().to_vec()));
    }
    headers
}

// ---------------------------------------------------------------------------------------------
// `call` cases, parsed and rendered as `c16.rs` does

fn parse_call(t: &[&str]) -> Option<CallIn> {
    let ["call", m, ver, uri, ext, n, rest @ ..] = t else { return None };
    let (mb, ub) = (unhex(m)?, unhex(uri)?);
    let method = Method::from_bytes(&mb).ok()?;
    let uri = http::Uri::try_from(&ub[..]).ok()?;
    let version = ver_of(ver)?;
    let n: usize = n.parse().ok()?;
    if rest.len() < 2 * n || !(*ext == "0" || *ext == "1") {
        return None;
    }
    let mut headers = Vec::new();
    for j in 0..n {
        let (k, v) = (unhex(rest[2 * j])?, unhex(rest[2 * j + 1])?);
        if k.iter().any(|b| b.is_ascii_uppercase()) {
            return None;
        }
        headers.push((k, v));
    }
    header_map(&headers)?;
    let req_evs = parse_evs(&rest[2 * n..])?;
    Some(CallIn { method, version, uri, ext: *ext == "1", headers, req_evs, resp_evs: kind_resp() })
}

fn render_call(status: u16, resp_headers: &HeaderMap, resp_frames: &[String], seen: Option<&Seen>) -> String {
    let resp = format!("rh {} {}", render_headers_sorted(resp_headers), resp_frames.join(" "));
    match seen {
        None => format!("{} skipped {}", status, resp),
        Some(s) => format!(
            "{} called {} {} {} {} h {} b {} | {}",
            status,
            hex(s.method.as_ref().unwrap().as_str().as_bytes()),
            ver_tok(s.version.unwrap()),
            hex(s.uri.as_ref().unwrap().to_string().as_bytes()),
            if s.ext { 1 } else { 0 },
            render_headers_sorted(s.headers.as_ref().unwrap()),
            s.frames.join(" "),
            resp
        ),
    }
}

// ---------------------------------------------------------------------------------------------
// seq: a history on one configured value

fn exec_seq(mode: &str, calls: Vec<CallIn>) -> Option<String> {
    let inner = InnerX::new(RespScript::plain(kind_resp(), 0), 1);
    let layer = tonic_web::GrpcWebLayer::new();
    let mut svc: Svc = layer.layer(inner.clone());
    let n = calls.len();
    let mut outs: Vec<Option<(u16, HeaderMap, Vec<String>)>> = vec![None; n];
    match mode {
        "s" | "c" | "l" => {
            for (i, c) in calls.iter().enumerate() {
                let req = build_request(c, 0, i)?;
                let res = match mode {
                    "s" => {
                        make_ready(&mut svc)?;
                        block_on(svc.call(req))?.unwrap()
                    }
                    "c" => {
                        let mut s = svc.clone();
                        make_ready(&mut s)?;
                        block_on(s.call(req))?.unwrap()
                    }
                    _ => {
                        let mut s: Svc = if i % 2 == 0 { layer.layer(inner.clone()) } else { layer.clone().layer(inner.clone()) };
                        make_ready(&mut s)?;
                        block_on(s.call(req))?.unwrap()
                    }
                };
                let (status, _, _, headers, body) = finish(res)?;
                outs[i] = Some((status, headers, body.frames));
            }
        }
        "r" => {
            let mut futs = Vec::new();
            for (i, c) in calls.iter().enumerate() {
                let req = build_request(c, 0, i)?;
                make_ready(&mut svc)?;
                futs.push(svc.call(req));
            }
            let mut ress = Vec::new();
            for (i, f) in futs.into_iter().enumerate().rev() {
                ress.push((i, block_on(f)?.unwrap()));
            }
            // the bodies are read in the order of the calls again: every response is there before any body is read
            ress.reverse();
            for (i, res) in ress {
                let (status, _, _, headers, body) = finish(res)?;
                outs[i] = Some((status, headers, body.frames));
            }
        }
        _ => return Some("bad-case".into()),
    }
    // what the inner service saw, matched to the calls by the index each request carries in its extensions
    let st = inner.st.lock().unwrap();
    let mut parts = Vec::new();
    let mut used = 0;
    for i in 0..n {
        let (status, headers, frames) = outs[i].take()?;
        let seen: Vec<&SeenX> = st.seen.iter().flatten().filter(|s| s.idx == Some(i)).collect();
        used += seen.len();
        parts.push(render_call(status, &headers, &frames, seen.first().map(|s| &s.seen)));
        if seen.len() > 1 {
            parts.push(format!("inner-called-{}-times", seen.len()));
        }
    }
    if used != st.seen.len() {
        parts.push(format!("unmatched-inner-calls {}", st.seen.len() - used));
    }
    Some(parts.join(" ;; "))
}

// ---------------------------------------------------------------------------------------------
// wresp: the real transport::Server

#[derive(Clone)]
struct WebInner {
    resp: RespScript,
}
impl tonic::server::NamedService for WebInner {
    const NAME: &'static str = "verif.Web";
}
impl Service<Request<tonic::body::Body>> for WebInner {
    type Response = Response<axum::body::Body>;
    type Error = std::convert::Infallible;
    type Future = Pin<Box<dyn Future<Output = Result<Self::Response, Self::Error>> + Send>>;
    fn poll_ready(&mut self, _: &mut Context<'_>) -> Poll<Result<(), Self::Error>> {
        Poll::Ready(Ok(()))
    }
    fn call(&mut self, req: Request<tonic::body::Body>) -> Self::Future {
        let resp = self.resp.clone();
        Box::pin(async move {
            let _ = drain(req.into_body()).await;
            let mut b = ScriptBody::new(resp.evs);
            b.hints = resp.hints;
            let mut res = Response::new(axum::body::Body::new(b));
            *res.headers_mut() = header_map(&resp.headers).expect("valid response headers");
            Ok(res)
        })
    }
}

fn one_conn(sio: tokio::io::DuplexStream) -> impl tokio_stream::Stream<Item = Result<tokio::io::DuplexStream, std::io::Error>> {
    tokio_stream::StreamExt::chain(tokio_stream::once(Ok::<_, std::io::Error>(sio)), tokio_stream::pending())
}

async fn read_incoming(res: Response<hyper::body::Incoming>) -> String {
    let (parts, body) = res.into_parts();
    let frames = drain(body).await;
    let mut shown = HeaderMap::new();
    for (k, v) in parts.headers.iter() {
        if k == "content-type" || k == "x-inner" {
            shown.append(k.clone(), v.clone());
        }
    }
    // a client reads bytes: the data frames hyper cuts are one piece
    let mut data = Vec::new();
    let mut tail = Vec::new();
    let mut i = 0;
    while i < frames.len() {
        if frames[i] == "d" {
            data.extend(unhex(&frames[i + 1]).unwrap_or_default());
            i += 2;
        } else {
            tail.push(frames[i].clone());
            i += 1;
        }
    }
    let mut toks = Vec::new();
    if !data.is_empty() {
        toks.push("d".to_string());
        toks.push(hex(&data));
    }
    toks.extend(tail);
    format!("{} h {} {}", parts.status.as_u16(), render_headers_sorted(&shown), toks.join(" "))
}

fn exec_wresp(stack: &str, proto: &str, hints: u8, acc: Option<HeaderValue>, evs: Vec<Ev>) -> String {
    let svc = WebInner { resp: RespScript::plain(evs, hints) };
    let stack = stack.to_string();
    let proto = proto.to_string();
    paused_rt().block_on(async move {
        let (cio, sio) = tokio::io::duplex(1 << 16);
        let incoming = one_conn(sio);
        match stack.as_str() {
            "layer" => {
                let mut b = tonic::transport::Server::builder().accept_http1(true).layer(tonic_web::GrpcWebLayer::new());
                let router = b.add_service(svc);
                tokio::spawn(async move {
                    let _ = router.serve_with_incoming(incoming).await;
                });
            }
            "svc" => {
                let mut b = tonic::transport::Server::builder().accept_http1(true);
                let router = b.add_service(tonic_web::GrpcWebLayer::new().layer(svc));
                tokio::spawn(async move {
                    let _ = router.serve_with_incoming(incoming).await;
                });
            }
            _ => return "bad-case".to_string(),
        }
        let mut rb = Request::builder().method("POST").header("content-type", "application/grpc-web");
        if let Some(a) = acc {
            rb = rb.header("accept", a);
        }
        let body = http_body_util::Full::new(Bytes::from(frame(0, &[1])));
        let fut = async {
            match proto.as_str() {
                "h1" => {
                    let (mut send, conn) = match hyper::client::conn::http1::handshake(hyper_util::rt::TokioIo::new(cio)).await {
                        Ok(x) => x,
                        Err(_) => return "handshake-failed".to_string(),
                    };
                    tokio::spawn(async move {
                        let _ = conn.await;
                    });
                    let req = rb.uri("/verif.Web/M").header("host", "h").body(body).unwrap();
                    match send.send_request(req).await {
                        Ok(res) => read_incoming(res).await,
                        Err(_) => "transport-error".to_string(),
                    }
                }
                "h2" => {
                    let (mut send, conn) = match hyper::client::conn::http2::handshake(hyper_util::rt::TokioExecutor::new(), hyper_util::rt::TokioIo::new(cio)).await {
                        Ok(x) => x,
                        Err(_) => return "handshake-failed".to_string(),
                    };
                    tokio::spawn(async move {
                        let _ = conn.await;
                    });
                    let req = rb.uri("http://h/verif.Web/M").version(Version::HTTP_2).body(body).unwrap();
                    match send.send_request(req).await {
                        Ok(res) => read_incoming(res).await,
                        Err(_) => "transport-error".to_string(),
                    }
                }
                _ => "bad-case".to_string(),
            }
        };
        match tokio::time::timeout(std::time::Duration::from_secs(1_000_000), fut).await {
            Ok(s) => s,
            Err(_) => "hang".into(),
        }
    })
}

// ---------------------------------------------------------------------------------------------

pub fn execute(case: &str) -> Option<String> {
    let t: Vec<&str> = case.split(' ').filter(|s| !s.is_empty()).collect();
    Some(match t.as_slice() {
        ["hresp", h, acc, evs @ ..] => {
            let (Ok(hints), Some(acc), Some(evs)) = (h.parse::<u8>(), opt_hv(acc), parse_evs(evs)) else { return Some("bad-case".into()) };
            let c = post_web(resp_request_headers(&acc), vec![]);
            let Some(o) = run_x(&c, 0, RespScript::plain(evs, hints)) else { return Some("hang".into()) };
            format!("{} h {} {} {}", o.status, render_headers_sorted(&o.headers), o.body.frames.join(" "), o.body.tokens())
        }
        ["hreq", h, ct, evs @ ..] => {
            let (Ok(hints), Some(ct), Some(evs)) = (h.parse::<u8>(), opt_hv(ct), parse_evs(evs)) else { return Some("bad-case".into()) };
            let mut headers: Vec<(Vec<u8>, Vec<u8>)> = REQ_EXTRA.iter().map(|(k, v)| (k.as_bytes().to_vec(), v.as_bytes().to_vec())).collect();
            if let Some(ct) = ct {
                headers.push((b"content-type".to_vec(), ct.as_bytes().to_vec()));
            }
            let c = post_web(headers, evs);
            let Some(o) = run_x(&c, hints, RespScript::plain(vec![], 0)) else { return Some("hang".into()) };
            match o.seen {
                None => format!("{} skipped", o.status),
                Some(s) => format!(
                    "{} h {} | {} E {} H {}",
                    o.status,
                    render_headers_sorted(s.seen.headers.as_ref().unwrap()),
                    s.seen.frames.join(" "),
                    s.flags,
                    s.hints.join(" ")
                ),
            }
        }
        ["rhead", acc, status, ver, ext, n, rest @ ..] => {
            let (Some(acc), Ok(status), Some(version), Ok(n)) = (opt_hv(acc), status.parse::<u16>(), ver_of(ver), n.parse::<usize>()) else { return Some("bad-case".into()) };
            if rest.len() < 2 * n || !(*ext == "0" || *ext == "1") || http::StatusCode::from_u16(status).is_err() {
                return Some("bad-case".into());
            }
            let mut headers = Vec::new();
            for j in 0..n {
                let (Some(k), Some(v)) = (unhex(rest[2 * j]), unhex(rest[2 * j + 1])) else { return Some("bad-case".into()) };
                if k.iter().any(|b| b.is_ascii_uppercase()) {
                    return Some("bad-case".into());
                }
                headers.push((k, v));
            }
            if header_map(&headers).is_none() {
                return Some("bad-case".into());
            }
            let Some(evs) = parse_evs(&rest[2 * n..]) else { return Some("bad-case".into()) };
            let c = post_web(resp_request_headers(&acc), vec![]);
            let Some(o) = run_x(&c, 0, RespScript { status, version, ext: *ext == "1", headers, evs, hints: 0 }) else { return Some("hang".into()) };
            format!("{} {} {} h {} {}", o.status, ver_tok(o.version), if o.ext { 1 } else { 0 }, render_headers_sorted(&o.headers), o.body.frames.join(" "))
        }
        ["seq", mode, ";;", rest @ ..] => {
            let mut calls = Vec::new();
            for part in rest.split(|t| *t == ";;") {
                let Some(c) = parse_call(part) else { return Some("bad-case".into()) };
                calls.push(c);
            }
            exec_seq(mode, calls).unwrap_or_else(|| "hang".into())
        }
        ["wresp", stack, proto, h, acc, evs @ ..] => {
            let (Ok(hints), Some(acc), Some(evs)) = (h.parse::<u8>(), opt_hv(acc), parse_evs(evs)) else { return Some("bad-case".into()) };
            exec_wresp(stack, proto, hints, acc, evs)
        }
        _ => return None,
    })
}

// ---------------------------------------------------------------------------------------------
// generators

const HEAD_NAMES: [&str; 10] = ["content-type", "grpc-status", "grpc-message", "x-inner", "x-inner", "grpc-encoding", "set-cookie", "access-control-allow-origin", "vary", "accept"];

fn gen_head(rng: &mut Rng) -> (u16, &'static str, bool, Vec<(Vec<u8>, Vec<u8>)>) {
    let status = *rng.pick(&[200u16, 200, 200, 204, 206, 301, 400, 404, 415, 500, 503, 599]);
    let ver = *rng.pick(&["h11", "h2", "h2", "h10", "h3", "h09"]);
    let n = rng.below(7) as usize;
    let mut hs = Vec::new();
    for _ in 0..n {
        let k = *rng.pick(&HEAD_NAMES);
        let v: Vec<u8> = match k {
            "content-type" => rng.pick(&["application/grpc", "application/grpc+proto", "application/grpc-web-text", "application/grpc-web+proto", "text/plain", "dup"]).as_bytes().to_vec(),
            "grpc-status" => rng.pick(&["0", "12", "2", "x"]).as_bytes().to_vec(),
            _ => super::VALUES[rng.below(super::VALUES.len() as u64) as usize].to_vec(),
        };
        hs.push((k.as_bytes().to_vec(), v));
    }
    if header_map(&hs).is_none() {
        hs.clear();
    }
    (status, ver, rng.chance(1, 2), hs)
}

fn rhead_case(acc: &str, head: &(u16, &str, bool, Vec<(Vec<u8>, Vec<u8>)>), evs: &[Ev]) -> String {
    let mut t = vec!["rhead".to_string(), tok(acc), head.0.to_string(), head.1.to_string(), if head.2 { "1".into() } else { "0".into() }, head.3.len().to_string()];
    for (k, v) in &head.3 {
        t.push(hex(k));
        t.push(hex(v));
    }
    let e = render_evs(evs);
    if !e.is_empty() {
        t.push(e);
    }
    t.join(" ")
}

fn with_tail(head: String, evs: &[Ev]) -> String {
    let e = render_evs(evs);
    if e.is_empty() {
        head
    } else {
        format!("{} {}", head, e)
    }
}

pub fn generate(tier: &str, rng: &mut Rng) -> Vec<String> {
    let thorough = tier == "thorough";
    let mut out: Vec<String> = Vec::new();
    let st0 = vec![(b"grpc-status".to_vec(), b"0".to_vec())];
    let p = |k: &str, v: &str| (k.as_bytes().to_vec(), v.as_bytes().to_vec());

    // ---- hresp: the hints of the translated response body ---------------------------------------
    // corpus: the witness of `C16_response_hints_truthful_fails_as_found` (a body of exact size 0 that still owes its
    // trailers), one message + trailers, no trailers, an empty body that says so
    for acc in ["application/grpc-web", "application/grpc-web-text", "none"] {
        for h in 0..4u8 {
            out.push(with_tail(format!("hresp {} {}", h, tok(acc)), &[Ev::Trailers(st0.clone())]));
            out.push(with_tail(format!("hresp {} {}", h, tok(acc)), &[Ev::Data(vec![0, 0, 0, 0, 1, 7]), Ev::Trailers(st0.clone())]));
            out.push(with_tail(format!("hresp {} {}", h, tok(acc)), &[Ev::Data(vec![0, 0, 0, 0, 2, 7]), Ev::Pending, Ev::Data(vec![8]), Ev::Pending]));
            out.push(with_tail(format!("hresp {} {}", h, tok(acc)), &[]));
            out.push(with_tail(format!("hresp {} {}", h, tok(acc)), &[Ev::Pending]));
            out.push(with_tail(format!("hresp {} {}", h, tok(acc)), &[Ev::Data(vec![0, 0, 0, 0, 0]), Ev::Err]));
        }
    }
    let n_h = if thorough { 3000 } else { 250 };
    for _ in 0..n_h {
        let fs = gen_frames(rng, 3, true);
        let bytes = frames_bytes(&fs);
        let ck = chunkings(&bytes, &prefix_marks(&fs), rng, 1).pop().unwrap();
        let dens = *rng.pick(&[0u64, 3, 1]);
        let mut evs = with_pendings(&ck, rng, dens);
        if bytes.is_empty() && rng.chance(1, 2) {
            evs.clear();
        }
        match rng.below(8) {
            0 => {}
            1 => evs.push(Ev::Err),
            _ => evs.push(Ev::Trailers(gen_trailers_valid(rng))),
        }
        if rng.chance(1, 8) {
            evs.push(Ev::Pending);
        }
        let acc = *rng.pick(&ACCEPTS);
        out.push(with_tail(format!("hresp {} {}", rng.below(4), tok(acc)), &evs));
    }

    // ---- hreq: the hints of the body the inner service is handed ---------------------------------
    for ct in WEB_CTS {
        for h in 0..4u8 {
            // `AQ==`: the witness of `C16_request_text_hints_fail_as_found` (4 characters of text, 1 byte of data)
            out.push(with_tail(format!("hreq {} {}", h, tok(ct)), &[Ev::Data(b"AQ==".to_vec())]));
            out.push(with_tail(format!("hreq {} {}", h, tok(ct)), &[Ev::Data(b"AAAAAAIBAg==".to_vec())]));
            out.push(with_tail(format!("hreq {} {}", h, tok(ct)), &[Ev::Data(b"AAAAAA".to_vec()), Ev::Pending, Ev::Data(b"IBA".to_vec()), Ev::Data(b"g==".to_vec())]));
            out.push(with_tail(format!("hreq {} {}", h, tok(ct)), &[]));
            out.push(with_tail(format!("hreq {} {}", h, tok(ct)), &[Ev::Data(b"AAAA".to_vec()), Ev::Data(vec![]), Ev::Pending]));
        }
    }
    for _ in 0..n_h {
        let fs = gen_frames(rng, 3, true);
        let payload = frames_bytes(&fs);
        let ct = *rng.pick(&WEB_CTS);
        let body = if ct.contains("text") { b64(&payload) } else { payload };
        let ck = chunkings(&body, &[], rng, 1).pop().unwrap();
        let dens = *rng.pick(&[0u64, 3]);
        let mut evs = with_pendings(&ck, rng, dens);
        if body.is_empty() && rng.chance(1, 2) {
            evs.clear();
        }
        if rng.chance(1, 12) {
            evs.push(Ev::Err);
        }
        out.push(with_tail(format!("hreq {} {}", rng.below(4), tok(ct)), &evs));
    }

    // ---- rhead: the inner response's head -----------------------------------------------------------
    // trailers-only answers (grpc-status in the headers, no body), other statuses, versions, header maps
    let trailers_only = (200u16, "h2", false, vec![p("content-type", "application/grpc"), p("grpc-status", "12"), p("grpc-message", "no such method")]);
    for acc in ["application/grpc-web", "application/grpc-web-text", "none"] {
        out.push(rhead_case(acc, &trailers_only, &[]));
        out.push(rhead_case(acc, &(404, "h11", true, vec![]), &[]));
        out.push(rhead_case(acc, &(200, "h3", true, vec![p("grpc-status", "0"), p("x-inner", "1"), p("grpc-status", "0")]), &[Ev::Data(vec![0, 0, 0, 0, 1, 7]), Ev::Trailers(st0.clone())]));
    }
    let n_r = if thorough { 4000 } else { 300 };
    for _ in 0..n_r {
        let head = gen_head(rng);
        let fs = gen_frames(rng, 2, false);
        let bytes = frames_bytes(&fs);
        let ck = chunkings(&bytes, &[], rng, 1).pop().unwrap();
        let mut evs = with_pendings(&ck, rng, 4);
        if bytes.is_empty() && rng.chance(1, 2) {
            evs.clear();
        }
        if rng.chance(4, 5) {
            evs.push(Ev::Trailers(gen_trailers_valid(rng)));
        }
        out.push(rhead_case(*rng.pick(&ACCEPTS), &head, &evs));
    }

    // ---- seq: histories ------------------------------------------------------------------------------
    let web_call = |rng: &mut Rng, ct: &str, acc: &str, m: &str, v: &str| -> String {
        let mut hs = vec![];
        if ct != "none" {
            hs.push(p("content-type", ct));
        }
        if acc != "none" {
            hs.push(p("accept", acc));
        }
        if rng.chance(1, 3) {
            hs.push(p("x-user", if rng.chance(1, 2) { "a" } else { "b" }));
        }
        let payload = frames_bytes(&gen_frames(rng, 2, false));
        let body = if ct.contains("text") { b64(&payload) } else { payload };
        let ck = chunkings(&body, &[], rng, 1).pop().unwrap();
        let evs = with_pendings(&ck, rng, 4);
        super::call_case(m.as_bytes(), v, *rng.pick(&super::URIS), rng.chance(1, 2), &hs, &evs)
    };
    // every ordered pair of (content-type, accept) forms, in every mode: what one call negotiated must not leak
    // into the next one
    let forms = ["application/grpc-web", "application/grpc-web-text"];
    for mode in ["s", "c", "r", "l"] {
        for c1 in forms {
            for a1 in forms {
                for c2 in forms {
                    for a2 in forms {
                        if !thorough && rng.chance(1, 2) {
                            continue;
                        }
                        let a = web_call(rng, c1, a1, "POST", "h11");
                        let b = web_call(rng, c2, a2, "POST", "h2");
                        out.push(format!("seq {} ;; {} ;; {}", mode, a, b));
                    }
                }
            }
        }
        // a refused / passed-through call between two translated ones
        for (m, v, ct) in [("GET", "h11", "application/grpc-web-text"), ("POST", "h11", "application/grpc"), ("POST", "h2", "application/grpc"), ("OPTIONS", "h2", "none")] {
            let a = web_call(rng, "application/grpc-web-text", "application/grpc-web-text", "POST", "h2");
            let b = web_call(rng, ct, "application/grpc-web-text", m, v);
            let c = web_call(rng, "application/grpc-web", "application/grpc-web", "POST", "h11");
            out.push(format!("seq {} ;; {} ;; {} ;; {}", mode, a, b, c));
            out.push(format!("seq {} ;; {} ;; {}", mode, b, a));
        }
    }
    let n_s = if thorough { 2000 } else { 150 };
    let all_cts = ["none", "application/grpc-web", "application/grpc-web+proto", "application/grpc-web-text", "application/grpc-web-text+proto", "application/grpc", "application/json"];
    for _ in 0..n_s {
        let k = rng.range(2, 5);
        let mode = *rng.pick(&["s", "c", "r", "l"]);
        let mut parts = Vec::new();
        for _ in 0..k {
            let ct = *rng.pick(&all_cts);
            let acc = *rng.pick(&ACCEPTS);
            let m = *rng.pick(&["POST", "POST", "POST", "GET"]);
            let v = *rng.pick(&["h11", "h2"]);
            parts.push(web_call(rng, ct, acc, m, v));
        }
        out.push(format!("seq {} ;; {}", mode, parts.join(" ;; ")));
    }

    // ---- wresp: the real server stacks ----------------------------------------------------------------
    let n_w = if thorough { 400 } else { 40 };
    for stack in ["layer", "svc"] {
        for proto in ["h1", "h2"] {
            for acc in ["application/grpc-web", "application/grpc-web-text"] {
                for h in 0..4u8 {
                    out.push(with_tail(format!("wresp {} {} {} {}", stack, proto, h, tok(acc)), &[Ev::Data(vec![0, 0, 0, 0, 1, 7]), Ev::Trailers(st0.clone())]));
                    out.push(with_tail(format!("wresp {} {} {} {}", stack, proto, h, tok(acc)), &[Ev::Trailers(st0.clone())]));
                }
            }
        }
    }
    for _ in 0..n_w {
        let fs = gen_frames(rng, 3, true);
        let bytes = frames_bytes(&fs);
        let ck = chunkings(&bytes, &prefix_marks(&fs), rng, 1).pop().unwrap();
        let mut evs = with_pendings(&ck, rng, 3);
        if bytes.is_empty() && rng.chance(1, 2) {
            evs.clear();
        }
        evs.push(Ev::Trailers(gen_trailers_valid(rng)));
        let acc = *rng.pick(&["none", "application/grpc-web", "application/grpc-web+proto", "application/grpc-web-text", "application/grpc-web-text+proto"]);
        out.push(with_tail(format!("wresp {} {} {} {}", rng.pick(&["layer", "svc"]), rng.pick(&["h1", "h2"]), rng.below(4), tok(acc)), &evs));
    }
    out
}
