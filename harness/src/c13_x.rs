//! C13 — dimensions added by the proactive audit (aC13); a child module of `c13.rs`.
//!
//! * `x<bits>`: further `Server` builder knobs on the path of every call, all expected NOT to show:
//!     1 = `accept_http1(true)` (the connection builder is no longer `http2_only()`: hyper-util's
//!         auto connection first reads the HTTP version - a graceful shutdown can hit that state);
//!     2 = `trace_fn(..)` (`Svc::call` takes the request apart and puts it together again around the
//!         callback, `SvcFuture` enters the span on every poll);
//!     4 = `Server::layer(InterceptorLayer::new(pass-through))`: `layer()` copies every setting of
//!         the builder by hand into a new `Server<Stack<..>>`, the per-connection service is the
//!         layered one, the response body type is no longer `tonic::body::Body`.
//! * `z<1|2|3>`: a SIBLING server built from the same `Server` builder value (`add_service` clones
//!   the builder): 1 = sibling first, then the server under test; 2 = the other way round; 3 = the
//!   sibling from the builder BEFORE the case's settings were applied to it (the builder is
//!   reconfigured after use).  The sibling serves its own in-memory `incoming` with its own signal,
//!   which never fires.  Before the script it gets one connection and a server-streaming call that
//!   is advanced past its response head; after the script's drain point the call is released, and a
//!   new connection with a unary call is offered.  Servers built from one builder share nothing:
//!   whatever the script does to the server under test, the sibling must not resolve, must keep its
//!   call, and must keep accepting; and the server under test behaves as predicted for a lone server
//!   (in particular its serve future does not wait for the sibling's connections).
//!   Observed: `z:<resolved>:<c0 accepted>:<hdr>:<msgs>:<fin>:<c1 accepted>:<hdr>:<msgs>:<fin>`.
use super::*;
use tonic::service::InterceptorLayer;

pub(super) const X_HTTP1: u32 = 1;
pub(super) const X_TRACE: u32 = 2;
pub(super) const X_LAYER: u32 = 4;
pub(super) const X_MAX: u64 = 7;

pub(super) type ServeFut = Pin<Box<dyn Future<Output = Result<(), tonic::transport::Error>> + Send>>;
pub(super) type SigRx = (oneshot::Receiver<()>, oneshot::Receiver<()>);

/// which of the four entry points serves, and on what
pub(super) enum How {
    Incoming(Incoming, Option<SigRx>),
    Tcp(std::net::SocketAddr, Option<SigRx>),
}

fn pass(r: Request<()>) -> Result<Request<()>, Status> {
    Ok(r)
}

macro_rules! serve_boxed {
    ($router:expr, $how:expr) => {
        match $how {
            How::Incoming(inc, Some((s, k))) => Box::pin($router.serve_with_incoming_shutdown(inc, signal_future(s, k))) as ServeFut,
            How::Incoming(inc, None) => Box::pin($router.serve_with_incoming(inc)) as ServeFut,
            How::Tcp(a, Some((s, k))) => Box::pin($router.serve_with_shutdown(a, signal_future(s, k))) as ServeFut,
            How::Tcp(a, None) => Box::pin($router.serve(a)) as ServeFut,
        }
    };
}

/// the case's settings, applied to a builder value
fn configure(mut builder: Server, sc: &Script) -> Server {
    if sc.tls {
        let id = tonic::transport::Identity::from_pem(S1GOOD, S1GOOD_KEY);
        builder = builder.tls_config(tonic::transport::ServerTlsConfig::new().identity(id)).expect("server tls config");
    }
    if sc.age {
        builder = builder.max_connection_age(AGE);
    }
    if let Some(d) = sc.timeout {
        builder = builder.timeout(Duration::from_secs(d));
    }
    if let Some(k) = sc.keepalive {
        if sc.transport == Transport::Tcp {
            // HTTP/2 keepalive pings travel through the kernel there, and the paused clock leaps
            // to the ping timeout while the ack is still on its way: TCP keepalive instead
            builder = builder.tcp_keepalive(Some(Duration::from_secs(k))).tcp_nodelay(true);
        } else {
            builder = builder.http2_keepalive_interval(Some(Duration::from_secs(k))).http2_keepalive_timeout(Some(KEEPALIVE_TIMEOUT));
        }
    }
    if let Some(l) = sc.limit {
        builder = builder.concurrency_limit_per_connection(l).max_concurrent_streams(Some(l as u32));
    }
    if sc.extra & X_HTTP1 != 0 {
        builder = builder.accept_http1(true);
    }
    if sc.extra & X_TRACE != 0 {
        builder = builder.trace_fn(|req| tracing::info_span!("c13", path = %req.uri().path()));
    }
    builder
}

/// The serve future of the server under test and, with `z`, that of its sibling - both routers made
/// by `add_service` on ONE builder value, in the order the case asks for.
pub(super) fn serve_futures(sc: &Script, sh: &Sh, how: How, sib: Option<(Sh, How)>) -> (ServeFut, Option<ServeFut>) {
    let mut builder = Server::builder();
    let mut sib = sib;
    let mut sib_fut: Option<ServeFut> = None;
    if sc.sibling == 3 {
        // the sibling is built from the builder as it is NOW; the builder is reconfigured afterwards
        if let Some((ssh, show)) = sib.take() {
            let r = builder.add_service(GateSvc { sh: ssh });
            sib_fut = Some(serve_boxed!(r, show));
        }
    }
    let builder = configure(builder, sc);
    macro_rules! finish {
        ($b:expr) => {{
            let mut b = $b;
            if sc.sibling == 1 {
                if let Some((ssh, show)) = sib.take() {
                    let r = b.add_service(GateSvc { sh: ssh });
                    sib_fut = Some(serve_boxed!(r, show));
                }
            }
            let main = b.add_service(GateSvc { sh: sh.clone() });
            if let Some((ssh, show)) = sib.take() {
                let r = b.add_service(GateSvc { sh: ssh });
                sib_fut = Some(serve_boxed!(r, show));
            }
            serve_boxed!(main, how)
        }};
    }
    let main_fut = if sc.extra & X_LAYER != 0 { finish!(builder.layer(InterceptorLayer::new(pass as fn(Request<()>) -> Result<Request<()>, Status>))) } else { finish!(builder) };
    (main_fut, sib_fut)
}

fn push_call(sh: &Sh, kind: Kind, n: usize, status: i32) -> usize {
    let mut g = sh.lock().unwrap();
    g.calls.push(CallRec {
        n,
        m: 0,
        status,
        kind,
        gate: Arc::new(Semaphore::new(0)),
        started: false,
        hdr: None,
        msgs: 0,
        bad: false,
        fin: None,
        done_at: None,
    });
    g.calls.len() - 1
}

pub(super) struct Sibling {
    sh: Sh,
    inc_tx: mpsc::UnboundedSender<Result<SrvIo, std::io::Error>>,
    _sig: (oneshot::Sender<()>, oneshot::Sender<()>),
    serve: tokio::task::JoinHandle<()>,
    tls: bool,
    buf: usize,
    keep: Vec<tonic::transport::Channel>,
    tasks: Vec<tokio::task::JoinHandle<()>>,
}

/// the sibling's own shared state, incoming stream and (never fired) signal
pub(super) struct SiblingParts {
    pub sh: Sh,
    inc_tx: mpsc::UnboundedSender<Result<SrvIo, std::io::Error>>,
    sig: (oneshot::Sender<()>, oneshot::Sender<()>),
}

pub(super) fn sibling_parts(sc: &Script) -> (SiblingParts, How) {
    let sh: Sh = Arc::new(Mutex::new(Shared { payload: sc.payload, ..Default::default() }));
    let (inc_tx, inc_rx) = mpsc::unbounded_channel();
    let (stx, sig_rx) = oneshot::channel::<()>();
    let (ktx, keep_rx) = oneshot::channel::<()>();
    let incoming = Incoming {
        rx: inc_rx,
        triggers: Arc::new(Mutex::new(Vec::new())),
        sig: Arc::new(Mutex::new(None)),
        ended: false,
        repolled: Arc::new(std::sync::atomic::AtomicBool::new(false)),
    };
    (SiblingParts { sh, inc_tx, sig: (stx, ktx) }, How::Incoming(incoming, Some((sig_rx, keep_rx))))
}

impl Sibling {
    async fn offer(&mut self) -> Option<tonic::transport::Channel> {
        let id = {
            let mut g = self.sh.lock().unwrap();
            g.conns.push(ConnRec::default());
            g.conns.len() - 1
        };
        let (cli, srv) = tokio::io::duplex(self.buf.max(24));
        let _ = self.inc_tx.send(Ok(SrvIo { inner: srv, id, sh: self.sh.clone() }));
        let ch = connect_duplex(cli, self.tls).await;
        if let Some(c) = &ch {
            self.keep.push(c.clone());
        }
        ch
    }

    /// before the script: the sibling runs, has one connection and a server-streaming call that is
    /// past its response head
    pub(super) async fn start(sc: &Script, parts: SiblingParts, fut: ServeFut) -> Sibling {
        let shs = parts.sh.clone();
        let serve = tokio::spawn(async move {
            let r = fut.await;
            record_resolved(&shs, r.is_ok());
        });
        let mut s = Sibling {
            sh: parts.sh,
            inc_tx: parts.inc_tx,
            _sig: parts.sig,
            serve,
            // the sibling of `z3` was built before `tls_config` was applied
            tls: sc.tls && sc.sibling != 3,
            buf: sc.buf,
            keep: Vec::new(),
            tasks: Vec::new(),
        };
        let ch = s.offer().await;
        let k = push_call(&s.sh, Kind::SStream, 1, 0);
        if let Some(ch) = ch {
            s.tasks.push(tokio::spawn(client_call(s.sh.clone(), ch, k, None)));
        }
        let gate = s.sh.lock().unwrap().calls[k].gate.clone();
        gate.add_permits(1);
        settle().await;
        settle().await;
        s
    }

    /// after the script's drain point: release the call, offer a new connection with a unary call
    pub(super) async fn finish(mut self) -> String {
        let resolved = self.sh.lock().unwrap().resolved.is_some();
        let gate = self.sh.lock().unwrap().calls[0].gate.clone();
        gate.add_permits(1 << 20);
        settle().await;
        let ch = self.offer().await;
        let k = push_call(&self.sh, Kind::Unary, 1, 0);
        let gate = self.sh.lock().unwrap().calls[k].gate.clone();
        gate.add_permits(1 << 20);
        if let Some(ch) = ch {
            self.tasks.push(tokio::spawn(client_call(self.sh.clone(), ch, k, None)));
        }
        settle().await;
        settle().await;
        let tok = {
            let g = self.sh.lock().unwrap();
            let call = |k: usize| {
                let c = &g.calls[k];
                let hdr = match c.hdr {
                    None => "0",
                    Some(true) => "1",
                    Some(false) => "bad",
                };
                let msgs = if c.bad { "bad".to_string() } else { c.msgs.to_string() };
                format!("{}:{}:{}", hdr, msgs, c.fin.clone().unwrap_or_else(|| "-".into()))
            };
            let acc = |i: usize| g.conns.get(i).map(|c| c.accepted as u8).unwrap_or(0);
            format!("z:{}:{}:{}:{}:{}", resolved as u8, acc(0), call(0), acc(1), call(1))
        };
        for t in self.tasks.iter() {
            t.abort();
        }
        self.keep.clear();
        self.serve.abort();
        tok
    }
}
