//! `featc <endpoint timeout ms | -> <caller timeout ms | ->`: a channel of THIS build of tonic (client only) over an
//! in-memory pipe to an HTTP/2 peer that accepts every request and never answers; one unary call with
//! `Request::set_timeout` (caller) on an endpoint with `Endpoint::timeout`.  Virtual time.
//! Observed: `code:<n> msg:<timeout|other> at:<ms>`.
use http::uri::PathAndQuery;
use hyper_util::rt::TokioIo;
use std::time::Duration;
use tonic::{
    client::Grpc,
    codec::ProstCodec,
    transport::{Endpoint, Uri},
    Request,
};

fn silent_peer(io: tokio::io::DuplexStream) {
    tokio::spawn(async move {
        let Ok(mut conn) = h2::server::handshake(io).await else { return };
        let mut open = Vec::new();
        while let Some(next) = conn.accept().await {
            match next {
                Ok(stream) => open.push(stream),
                Err(_) => break,
            }
        }
    });
}

async fn run(ep_ms: Option<u64>, caller_ms: Option<u64>) -> String {
    let mut endpoint = Endpoint::from_static("http://demo.invalid");
    if let Some(ms) = ep_ms {
        endpoint = endpoint.timeout(Duration::from_millis(ms));
    }
    let (client_io, server_io) = tokio::io::duplex(64 * 1024);
    silent_peer(server_io);
    let mut client_io = Some(client_io);
    let channel = match endpoint
        .connect_with_connector(tower::service_fn(move |_: Uri| {
            let io = client_io.take();
            async move { io.map(TokioIo::new).ok_or_else(|| std::io::Error::other("used")) }
        }))
        .await
    {
        Ok(c) => c,
        Err(_) => return "no-connection".into(),
    };
    let mut grpc = Grpc::new(channel);
    if grpc.ready().await.is_err() {
        return "not-ready".into();
    }
    let mut request = Request::new(());
    if let Some(ms) = caller_ms {
        request.set_timeout(Duration::from_millis(ms));
    }
    let start = tokio::time::Instant::now();
    let res = tokio::time::timeout(
        Duration::from_secs(100_000),
        grpc.unary(request, PathAndQuery::from_static("/demo.Demo/Hang"), ProstCodec::<(), ()>::default()),
    )
    .await;
    let at = start.elapsed().as_millis();
    match res {
        Err(_) => "hang".into(),
        Ok(Ok(_)) => format!("code:0 msg:other at:{at}"),
        Ok(Err(st)) => format!("code:{} msg:{} at:{at}", st.code() as i32, if st.message() == "Timeout expired" { "timeout" } else { "other" }),
    }
}

fn main() {
    let t: Vec<String> = std::env::args().skip(1).collect();
    let parse = |s: &str| -> Result<Option<u64>, ()> { if s == "-" { Ok(None) } else { s.parse().map(Some).map_err(|_| ()) } };
    let out = match (t.first().map(|s| s.as_str()), t.get(1).map(|s| parse(s)), t.get(2).map(|s| parse(s))) {
        (Some("featc"), Some(Ok(e)), Some(Ok(c))) if t.len() == 3 && (e.is_some() || c.is_some()) => {
            let rt = tokio::runtime::Builder::new_current_thread().enable_all().start_paused(true).build().unwrap();
            match std::panic::catch_unwind(std::panic::AssertUnwindSafe(|| rt.block_on(run(e, c)))) {
                Ok(s) => s,
                Err(_) => "panic".into(),
            }
        }
        _ => "bad-case".into(),
    };
    println!("{}", out);
}
